package main

import (
	"fmt"
	"go/types"
	"strings"

	"golang.org/x/tools/go/ssa"
)

// Values. Concrete shape, symbolic leaves.
//
//   *Term        ints, uints, uintptr, bool (width from the Go type; Bool sort for bool)
//   float64      concrete floats only (float32 stored as float64)
//   str          string: concrete length, cells are 8-bit terms
//   *value       pointer (nil pointer = (*value)(nil))
//   structure    struct, by value
//   array        array, by value
//   []value      slice (Go slice aliasing gives Go semantics)
//   *hmap        map (nil map = (*hmap)(nil))
//   iface        interface value (t == nil means nil interface)
//   *closure, *ssa.Function, *ssa.Builtin   funcs
//   tuple        multiple results
//   *iterState   range iterator
//   opaque       value of an init-time computation the engine could not run
//   unsafePtr    unsafe.Pointer wrapping another value

type value interface{}

type str struct {
	c []*Term
}

type structure []value
type array []value
type tuple []value

type iface struct {
	t types.Type
	v value
}

type closure struct {
	Fn  *ssa.Function
	Env []value
}

type opaque struct{ why string }

type unsafePtr struct{ v value }

// hmap is an insertion-ordered association list; keys may have symbolic content.
type hmap struct {
	keyT types.Type
	keys []value
	vals []value
}

type iterState struct {
	// map iteration: snapshot of keys in iteration order
	m    *hmap
	keys []value
	// string iteration
	s   str
	pos int
	isS bool
}

// ---- helpers --------------------------------------------------------------

func (e *Engine) mkstr(s string) str {
	c := make([]*Term, len(s))
	for i := 0; i < len(s); i++ {
		c[i] = e.ts.Const(8, uint64(s[i]))
	}
	return str{c}
}

func (s str) concrete() (string, bool) {
	b := make([]byte, len(s.c))
	for i, t := range s.c {
		if !t.IsConst() {
			return "", false
		}
		b[i] = byte(t.Val)
	}
	return string(b), true
}

// show renders a string with symbolic cells marked.
func (s str) show() string {
	var sb strings.Builder
	for _, t := range s.c {
		if t.IsConst() {
			sb.WriteByte(byte(t.Val))
		} else {
			sb.WriteString("¿")
		}
	}
	return sb.String()
}

func typeWidth(t types.Type) (w uint8, signed bool, ok bool) {
	b, isB := t.Underlying().(*types.Basic)
	if !isB {
		return 0, false, false
	}
	switch b.Kind() {
	case types.Bool, types.UntypedBool:
		return 0, false, true
	case types.Int8:
		return 8, true, true
	case types.Int16:
		return 16, true, true
	case types.Int32, types.UntypedRune:
		return 32, true, true
	case types.Int, types.Int64, types.UntypedInt:
		return 64, true, true
	case types.Uint8:
		return 8, false, true
	case types.Uint16:
		return 16, false, true
	case types.Uint32:
		return 32, false, true
	case types.Uint, types.Uint64, types.Uintptr:
		return 64, false, true
	}
	return 0, false, false
}

func isFloat(t types.Type) bool {
	b, ok := t.Underlying().(*types.Basic)
	return ok && b.Info()&types.IsFloat != 0
}

func isString(t types.Type) bool {
	b, ok := t.Underlying().(*types.Basic)
	return ok && b.Info()&types.IsString != 0
}

func deref(t types.Type) types.Type {
	if p, ok := t.Underlying().(*types.Pointer); ok {
		return p.Elem()
	}
	panic(fmt.Sprintf("deref of non-pointer %s", t))
}

func coreType(t types.Type) types.Type {
	return t.Underlying()
}

// zero returns the zero value of type t.
func (e *Engine) zero(t types.Type) value {
	switch t := t.(type) {
	case *types.Basic:
		if t.Kind() == types.UntypedNil {
			panic("untyped nil has no zero value")
		}
		if t.Kind() == types.Invalid {
			return nil // unused component of a range tuple
		}
		if t.Info()&types.IsString != 0 {
			return str{}
		}
		if t.Info()&types.IsFloat != 0 {
			return float64(0)
		}
		if t.Kind() == types.UnsafePointer {
			return unsafePtr{}
		}
		if t.Info()&types.IsComplex != 0 {
			return complex128(0)
		}
		w, _, ok := typeWidth(t)
		if !ok {
			panic(fmt.Sprintf("zero: unsupported basic %s", t))
		}
		return e.ts.Const(w, 0)
	case *types.Pointer:
		return (*value)(nil)
	case *types.Array:
		a := make(array, t.Len())
		for i := range a {
			a[i] = e.zero(t.Elem())
		}
		return a
	case *types.Slice:
		return []value(nil)
	case *types.Struct:
		s := make(structure, t.NumFields())
		for i := range s {
			s[i] = e.zero(t.Field(i).Type())
		}
		return s
	case *types.Tuple:
		if t.Len() == 1 {
			return e.zero(t.At(0).Type())
		}
		s := make(tuple, t.Len())
		for i := range s {
			s[i] = e.zero(t.At(i).Type())
		}
		return s
	case *types.Chan:
		return opaque{"chan"}
	case *types.Map:
		return (*hmap)(nil)
	case *types.Signature:
		return (*ssa.Function)(nil)
	case *types.Interface:
		return iface{}
	case *types.Named:
		return e.zero(t.Underlying())
	case *types.Alias:
		return e.zero(types.Unalias(t))
	case *types.TypeParam:
		panic("zero of type param")
	}
	panic(fmt.Sprintf("zero: unexpected type %T %s", t, t))
}

// copyVal returns a copy of v with value semantics for arrays and structs.
func copyVal(v value) value {
	switch v := v.(type) {
	case structure:
		c := make(structure, len(v))
		for i, f := range v {
			c[i] = copyVal(f)
		}
		return c
	case array:
		c := make(array, len(v))
		for i, f := range v {
			c[i] = copyVal(f)
		}
		return c
	case tuple:
		c := make(tuple, len(v))
		for i, f := range v {
			c[i] = copyVal(f)
		}
		return c
	}
	return v
}

func (e *Engine) load(addr *value) value {
	if addr == nil {
		e.goPanic("runtime error: invalid memory address or nil pointer dereference")
	}
	return copyVal(*addr)
}

// store writes v to *addr, journaling the old value for rollback at path end.
func (e *Engine) store(addr *value, v value) {
	if addr == nil {
		e.goPanic("runtime error: invalid memory address or nil pointer dereference")
	}
	if len(e.roCells) > 0 && e.roCells[addr] {
		e.unsupported("store through a pointer obtained by symbolic table indexing")
	}
	if e.journalOn {
		e.journal = append(e.journal, undoEntry{addr: addr, old: *addr})
	}
	*addr = copyVal(v)
}

// setCell writes a slice/array cell directly (journaled).
func (e *Engine) setCell(addr *value, v value) {
	if e.journalOn {
		e.journal = append(e.journal, undoEntry{addr: addr, old: *addr})
	}
	*addr = v
}

type undoEntry struct {
	addr *value
	old  value
	// map undo
	m     *hmap
	mkeys []value
	mvals []value
}

func (e *Engine) journalMap(m *hmap) {
	if e.journalOn {
		e.journal = append(e.journal, undoEntry{m: m, mkeys: m.keys, mvals: m.vals})
	}
}

func (e *Engine) rollback() {
	for i := len(e.journal) - 1; i >= 0; i-- {
		u := e.journal[i]
		if u.m != nil {
			u.m.keys, u.m.vals = u.mkeys, u.mvals
		} else {
			*u.addr = u.old
		}
	}
	e.journal = e.journal[:0]
}

// ---- equality -------------------------------------------------------------

// equals returns a Bool term for x == y at static type t.
func (e *Engine) equals(t types.Type, x, y value) *Term {
	switch x := x.(type) {
	case *Term:
		yt, ok := y.(*Term)
		if !ok {
			e.unsupported(fmt.Sprintf("equals: term vs %T", y))
		}
		return e.ts.Eq(x, yt)
	case float64:
		return e.ts.Bool(x == y.(float64))
	case str:
		return e.strEq(x, y.(str))
	case *value:
		return e.ts.Bool(x == y.(*value))
	case *hmap:
		return e.ts.Bool(x == y.(*hmap))
	case []value:
		// only comparison with nil is legal
		ys := y.([]value)
		return e.ts.Bool((x == nil) == (ys == nil) && (x == nil || ys == nil))
	case structure:
		ys := y.(structure)
		st := t.Underlying().(*types.Struct)
		r := e.ts.True
		for i := range x {
			if st.Field(i).Name() == "_" {
				continue
			}
			r = e.ts.And(r, e.equals(st.Field(i).Type(), x[i], ys[i]))
			if r.IsFalse() {
				return r
			}
		}
		return r
	case array:
		ys := y.(array)
		et := t.Underlying().(*types.Array).Elem()
		r := e.ts.True
		for i := range x {
			r = e.ts.And(r, e.equals(et, x[i], ys[i]))
			if r.IsFalse() {
				return r
			}
		}
		return r
	case iface:
		yi := y.(iface)
		if x.t == nil || yi.t == nil {
			return e.ts.Bool(x.t == nil && yi.t == nil)
		}
		if !types.Identical(x.t, yi.t) {
			return e.ts.False
		}
		if !types.Comparable(x.t) {
			e.goPanic("runtime error: comparing uncomparable type " + x.t.String())
		}
		return e.equals(x.t, x.v, yi.v)
	case *ssa.Function:
		switch y := y.(type) {
		case *ssa.Function:
			return e.ts.Bool(x == y)
		case *closure:
			return e.ts.Bool(x == nil && y == nil)
		}
		return e.ts.False
	case *closure:
		switch y := y.(type) {
		case *ssa.Function:
			return e.ts.Bool(x == nil && y == nil)
		case *closure:
			return e.ts.Bool(x == y)
		}
		return e.ts.False
	case *ssa.Builtin:
		return e.ts.Bool(x == y)
	case unsafePtr:
		yp, _ := y.(unsafePtr)
		return e.ts.Bool(x.v == yp.v)
	case opaque:
		e.unsupported("comparison of opaque value: " + x.why)
	}
	e.unsupported(fmt.Sprintf("equals: unhandled %T", x))
	return nil
}

func (e *Engine) strEq(a, b str) *Term {
	if len(a.c) != len(b.c) {
		return e.ts.False
	}
	r := e.ts.True
	for i := range a.c {
		r = e.ts.And(r, e.ts.Eq(a.c[i], b.c[i]))
		if r.IsFalse() {
			return r
		}
	}
	return r
}

// strLess returns a Bool term for a < b (lexicographic, bytewise).
func (e *Engine) strLess(a, b str) *Term {
	n := len(a.c)
	if len(b.c) < n {
		n = len(b.c)
	}
	// result if all of the first n cells are equal
	r := e.ts.Bool(len(a.c) < len(b.c))
	for i := n - 1; i >= 0; i-- {
		lt := e.ts.Cmp(OpULt, a.c[i], b.c[i])
		eq := e.ts.Eq(a.c[i], b.c[i])
		r = e.ts.Or(lt, e.ts.And(eq, r))
	}
	return r
}

// ---- maps -----------------------------------------------------------------

func (e *Engine) mapFind(m *hmap, key value) int {
	if m == nil {
		return -1
	}
	for i, k := range m.keys {
		eq := e.equals(m.keyT, k, key)
		if eq.IsTrue() {
			return i
		}
		if eq.IsFalse() {
			continue
		}
		if e.branch(eq, "mapkey") {
			return i
		}
	}
	return -1
}

func (e *Engine) mapLookup(m *hmap, key value) (value, bool) {
	i := e.mapFind(m, key)
	if i < 0 {
		return nil, false
	}
	return copyVal(m.vals[i]), true
}

func (e *Engine) mapUpdate(m *hmap, key, val value) {
	if m == nil {
		e.goPanic("assignment to entry in nil map")
	}
	i := e.mapFind(m, key)
	e.journalMap(m)
	if i >= 0 {
		nv := make([]value, len(m.vals))
		copy(nv, m.vals)
		nv[i] = copyVal(val)
		m.vals = nv
		return
	}
	nk := make([]value, len(m.keys), len(m.keys)+1)
	copy(nk, m.keys)
	nv := make([]value, len(m.vals), len(m.vals)+1)
	copy(nv, m.vals)
	m.keys = append(nk, copyVal(key))
	m.vals = append(nv, copyVal(val))
}

func (e *Engine) mapDelete(m *hmap, key value) {
	if m == nil {
		return
	}
	i := e.mapFind(m, key)
	if i < 0 {
		return
	}
	e.journalMap(m)
	nk := make([]value, 0, len(m.keys))
	nv := make([]value, 0, len(m.vals))
	for j := range m.keys {
		if j != i {
			nk = append(nk, m.keys[j])
			nv = append(nv, m.vals[j])
		}
	}
	m.keys, m.vals = nk, nv
}

// ---- debugging ------------------------------------------------------------

func (e *Engine) show(v value) string {
	switch v := v.(type) {
	case nil:
		return "<nil>"
	case *Term:
		if v.IsConst() {
			return fmt.Sprint(v.Val)
		}
		return v.String()
	case str:
		return fmt.Sprintf("%q", v.show())
	case iface:
		if v.t == nil {
			return "nil-iface"
		}
		return fmt.Sprintf("iface(%s, %s)", v.t, e.show(v.v))
	case *value:
		if v == nil {
			return "nil-ptr"
		}
		return "&" + e.showShallow(*v)
	case structure:
		return e.showShallow(v)
	case []value:
		if len(v) > 16 {
			return fmt.Sprintf("slice[%d]", len(v))
		}
		var sb strings.Builder
		sb.WriteString("[")
		for i, x := range v {
			if i > 0 {
				sb.WriteString(" ")
			}
			sb.WriteString(e.showShallow(x))
		}
		sb.WriteString("]")
		return sb.String()
	}
	return fmt.Sprintf("%T", v)
}

func (e *Engine) showShallow(v value) string {
	switch v := v.(type) {
	case *Term, str:
		return e.show(v)
	case structure:
		return fmt.Sprintf("struct{%d}", len(v))
	case *value:
		if v == nil {
			return "nil-ptr"
		}
		return "ptr"
	}
	return fmt.Sprintf("%T", v)
}
