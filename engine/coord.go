package main

import (
	"fmt"
	"os"
	"sync"
	"time"

	"golang.org/x/tools/go/ssa"
)

// HarnessSpec describes one harness run inside a check.
type HarnessSpec struct {
	Name    string   `json:"name"`
	Arith   bool     `json:"arith,omitempty"`   // use the bv-as-int back end first
	Tiers   []string `json:"tiers,omitempty"`   // if set, only run in these tiers
	Budget  int64    `json:"budget,omitempty"`  // per-path instruction budget override
	MaxConc int      `json:"maxconc,omitempty"` // concretisation fan-out override
}

type job struct {
	h     int
	items []workItem
}

type Coordinator struct {
	ld      *Loaded
	cfg     *Config
	specs   []HarnessSpec
	fns     []*ssa.Function
	workers int

	mu      sync.Mutex
	cond    *sync.Cond
	queue   []job
	active  int
	stats   []*HarnessStats
	solverS []map[string]map[string]any
	fatal   []string
	stop    bool
	stopped map[int]bool
}

func NewCoordinator(ld *Loaded, cfg *Config, specs []HarnessSpec, workers int) (*Coordinator, error) {
	c := &Coordinator{ld: ld, cfg: cfg, specs: specs, workers: workers}
	c.cond = sync.NewCond(&c.mu)
	for _, s := range specs {
		fn := ld.Pkg.Func(s.Name)
		if fn == nil {
			return nil, fmt.Errorf("harness %s not found in package", s.Name)
		}
		c.fns = append(c.fns, fn)
		c.stats = append(c.stats, newHarnessStats(s.Name))
		c.queue = append(c.queue, job{h: len(c.fns) - 1, items: []workItem{{}}})
	}
	return c, nil
}

func (c *Coordinator) Run() {
	var wg sync.WaitGroup
	for w := 0; w < c.workers; w++ {
		wg.Add(1)
		go func(id int) {
			defer wg.Done()
			c.worker(id)
		}(w)
	}
	wg.Wait()
}

func (c *Coordinator) take() (job, bool) {
	c.mu.Lock()
	defer c.mu.Unlock()
	for {
		if c.stop {
			return job{}, false
		}
		if len(c.queue) > 0 {
			// prefer the largest-h first? FIFO is fine.
			j := c.queue[0]
			c.queue = c.queue[1:]
			c.active++
			return j, true
		}
		if c.active == 0 {
			c.cond.Broadcast()
			return job{}, false
		}
		c.cond.Wait()
	}
}

func (c *Coordinator) give(h int, rest []workItem, st *HarnessStats) {
	c.mu.Lock()
	defer c.mu.Unlock()
	c.active--
	c.stats[h].merge(st)
	if c.cfg.Verbose || os.Getenv("VSYM_PROGRESS") != "" {
		fmt.Fprintf(os.Stderr, "[%s] paths=%d viol=%d queue=%d rest=%d\n", c.specs[h].Name, c.stats[h].Paths, len(c.stats[h].Violations), len(c.queue), len(rest))
	}
	if c.stopped == nil {
		c.stopped = map[int]bool{}
	}
	if c.stopped[h] {
		rest = nil
	}
	if c.cfg.StopOnFirst && len(st.Violations) > 0 {
		c.stopped[h] = true
		// keep exploring other harnesses but drop this one's remaining work
		rest = nil
		nq := c.queue[:0]
		for _, j := range c.queue {
			if j.h != h {
				nq = append(nq, j)
			}
		}
		c.queue = nq
	}
	if len(rest) > 0 {
		chunk := len(rest) / c.workers
		if chunk < 1 {
			chunk = 1
		}
		for i := 0; i < len(rest); i += chunk {
			j := i + chunk
			if j > len(rest) {
				j = len(rest)
			}
			items := make([]workItem, j-i)
			for k := range items {
				items[k] = workItem{prefix: rest[i+k].prefix} // models are engine-local: dropped
			}
			c.queue = append(c.queue, job{h: h, items: items})
		}
	}
	c.cond.Broadcast()
}

func (c *Coordinator) worker(id int) {
	engines := map[bool]*Engine{}
	defer func() {
		for _, e := range engines {
			c.mu.Lock()
			c.solverS = append(c.solverS, e.solver.Stats())
			c.mu.Unlock()
			e.solver.Close()
		}
	}()
	for {
		j, ok := c.take()
		if !ok {
			return
		}
		spec := c.specs[j.h]
		e := engines[spec.Arith]
		if e == nil {
			solvers := c.cfg.Solvers
			if spec.Arith {
				solvers = c.cfg.ArithSolver
			}
			e = NewEngine(c.ld.Prog, c.ld.Pkg, c.cfg, solvers)
			e.noRetMerge = spec.Arith
			engines[spec.Arith] = e
		}
		e.stats = newHarnessStats(spec.Name)
		e.stepBudget = c.cfg.StepBudget
		if spec.Budget > 0 {
			e.stepBudget = spec.Budget
		}
		var rest []workItem
		func() {
			defer func() {
				if r := recover(); r != nil {
					c.mu.Lock()
					c.fatal = append(c.fatal, fmt.Sprintf("engine crash in %s: %v at %s", spec.Name, r, e.crashWhere))
					c.mu.Unlock()
					if c.cfg.Verbose {
						fmt.Fprintf(os.Stderr, "ENGINE CRASH in %s: %v\n  at %s\n", spec.Name, r, e.crashWhere)
						panic(r)
					}
					e.journalOn = false
					e.crashWhere = ""
					e.rollback()
				}
			}()
			rest = e.Explore(c.fns[j.h], spec.Name, j.items, 2*time.Second, 1<<30)
		}()
		c.give(j.h, rest, e.stats)
	}
}
