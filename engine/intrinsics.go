package main

import (
	"errors"
	"fmt"
	"go/types"
	"math"
	"strconv"
	"strings"

	"golang.org/x/tools/go/ssa"
)

type intrinsic func(e *Engine, fr *frame, args []value) value

const vpkg = "connectrpc.com/vanguard."

func (e *Engine) argStr(v value) string {
	s, ok := v.(str)
	if !ok {
		panic(fmt.Sprintf("expected string argument, got %T", v))
	}
	c, ok := s.concrete()
	if !ok {
		e.unsupported("symbolic string where a concrete label is required")
	}
	return c
}

func bytesOf(v value) []*Term {
	switch v := v.(type) {
	case str:
		return v.c
	case []value:
		out := make([]*Term, len(v))
		for i, c := range v {
			out[i] = c.(*Term)
		}
		return out
	}
	panic(fmt.Sprintf("bytesOf %T", v))
}

func (e *Engine) intv(n int) *Term   { return e.ts.Const(64, uint64(int64(n))) }
func (e *Engine) boolv(b bool) *Term { return e.ts.Bool(b) }

func buildIntrinsics() map[string]intrinsic {
	m := map[string]intrinsic{}

	// ---- harness API ----
	m[vpkg+"verifNondetByte"] = func(e *Engine, fr *frame, a []value) value {
		return e.freshVar(8, e.argStr(a[0]), "byte")
	}
	m[vpkg+"verifNondetUint32"] = func(e *Engine, fr *frame, a []value) value {
		return e.freshVar(32, e.argStr(a[0]), "u32")
	}
	m[vpkg+"verifNondetInt64"] = func(e *Engine, fr *frame, a []value) value {
		return e.freshVar(64, e.argStr(a[0]), "i64")
	}
	m[vpkg+"verifNondetInt"] = m[vpkg+"verifNondetInt64"]
	m[vpkg+"verifNondetBool"] = func(e *Engine, fr *frame, a []value) value {
		return e.freshVar(0, e.argStr(a[0]), "bool")
	}
	m[vpkg+"verifChoose"] = func(e *Engine, fr *frame, a []value) value {
		name := e.argStr(a[0])
		n := int(e.concInt(a[1], "choose.n"))
		k := e.choose(name, n)
		e.nondets = append(e.nondets, nondetRec{Name: name, Kind: "choose", Val: int64(k)})
		if _, ok := e.stats.Ranges[name]; !ok {
			e.stats.Ranges[name] = fmt.Sprintf("choose 0..%d", n-1)
		}
		return e.intv(k)
	}
	m[vpkg+"verifAssume"] = func(e *Engine, fr *frame, a []value) value {
		c := a[0].(*Term)
		if c.IsFalse() {
			panic(pathEnd{kind: "infeasible", reason: "assume false"})
		}
		if c.IsTrue() {
			return nil
		}
		if e.pos >= len(e.prefix) {
			// new territory: keep the model valid
			e.ensureModel()
			if !e.model.Truth(c) {
				r, mod, _ := e.check(c, true)
				switch r {
				case Unsat:
					panic(pathEnd{kind: "infeasible", reason: "assume unsat"})
				case Sat:
					e.model = mod
				default:
					e.model = nil
				}
			}
		}
		e.assume(c)
		return nil
	}
	m[vpkg+"verifAssert"] = func(e *Engine, fr *frame, a []value) value {
		label := e.argStr(a[1])
		// "Cxx: ..." labels belong to one property; under another property's check they are neither decided nor
		// assumed (assuming them would hide this property's violations wherever the other property fails too)
		if e.cfg.Property != "" && len(label) > 4 && label[0] == 'C' && label[3] == ':' && label[:3] != e.cfg.Property {
			return nil
		}
		if e.pos < len(e.prefix) {
			e.assume(a[0].(*Term))
			return nil
		}
		e.assertObl(a[0].(*Term), label)
		return nil
	}
	m[vpkg+"verifReach"] = func(e *Engine, fr *frame, a []value) value {
		if e.pos >= len(e.prefix) {
			e.stats.Reach[e.argStr(a[0])]++
		}
		return nil
	}
	m[vpkg+"verifOutside"] = func(e *Engine, fr *frame, a []value) value {
		panic(pathEnd{kind: "outside", reason: e.argStr(a[0])})
	}
	m[vpkg+"verifTier"] = func(e *Engine, fr *frame, a []value) value {
		if e.cfg.Tier == "thorough" {
			return e.intv(1)
		}
		return e.intv(0)
	}
	m[vpkg+"verifObsBytes"] = func(e *Engine, fr *frame, a []value) value {
		var cp value
		switch v := a[1].(type) {
		case []value:
			c := make([]value, len(v))
			copy(c, v)
			cp = c
		default:
			cp = v
		}
		e.obs = append(e.obs, obsEntry{e.argStr(a[0]), cp})
		return nil
	}
	m[vpkg+"verifObsStr"] = m[vpkg+"verifObsBytes"]
	m[vpkg+"verifObsInt"] = func(e *Engine, fr *frame, a []value) value {
		e.obs = append(e.obs, obsEntry{e.argStr(a[0]), a[1]})
		return nil
	}
	m[vpkg+"verifObsBool"] = m[vpkg+"verifObsInt"]
	m[vpkg+"verifPoolMode"] = func(e *Engine, fr *frame, a []value) value {
		e.ghost.poolMode = int(e.concInt(a[0], "poolmode"))
		return nil
	}
	m[vpkg+"verifFixedMapOrder"] = func(e *Engine, fr *frame, a []value) value {
		e.ghost.fixedMapOrder = a[0].(*Term).IsTrue()
		return nil
	}
	m[vpkg+"verifIsSymbolic"] = func(e *Engine, fr *frame, a []value) value {
		return e.ts.True
	}
	// verifConcretize(x int) int: forks over the feasible values of x
	m[vpkg+"verifConcretize"] = func(e *Engine, fr *frame, a []value) value {
		return e.intv(int(e.concInt(a[0], "harness")))
	}
	m[vpkg+"verifGhostCount"] = func(e *Engine, fr *frame, a []value) value {
		return e.intv(e.ghostCount(e.argStr(a[0])))
	}
	m[vpkg+"verifNote"] = func(e *Engine, fr *frame, a []value) value { return nil }

	// ---- internal/bytealg ----
	m["internal/bytealg.IndexByte"] = func(e *Engine, fr *frame, a []value) value {
		return e.indexByte(bytesOf(a[0]), a[1].(*Term))
	}
	m["internal/bytealg.IndexByteString"] = m["internal/bytealg.IndexByte"]
	m["internal/bytealg.LastIndexByte"] = func(e *Engine, fr *frame, a []value) value {
		b, c := bytesOf(a[0]), a[1].(*Term)
		for i := len(b) - 1; i >= 0; i-- {
			if e.branch(e.ts.Eq(b[i], c), "lastindexbyte") {
				return e.intv(i)
			}
		}
		return e.intv(-1)
	}
	m["internal/bytealg.LastIndexByteString"] = m["internal/bytealg.LastIndexByte"]
	m["internal/bytealg.Count"] = func(e *Engine, fr *frame, a []value) value {
		b, c := bytesOf(a[0]), a[1].(*Term)
		n := e.ts.Const(64, 0)
		one := e.ts.Const(64, 1)
		for _, x := range b {
			n = e.ts.Ite(e.ts.Eq(x, c), e.ts.Bin(OpAdd, n, one), n)
		}
		return n
	}
	m["internal/bytealg.CountString"] = m["internal/bytealg.Count"]
	m["internal/bytealg.Equal"] = func(e *Engine, fr *frame, a []value) value {
		return e.strEq(str{bytesOf(a[0])}, str{bytesOf(a[1])})
	}
	m["internal/bytealg.Compare"] = func(e *Engine, fr *frame, a []value) value {
		x, y := str{bytesOf(a[0])}, str{bytesOf(a[1])}
		lt := e.strLess(x, y)
		eq := e.strEq(x, y)
		return e.ts.Ite(lt, e.ts.Const(64, ^uint64(0)), e.ts.Ite(eq, e.ts.Const(64, 0), e.ts.Const(64, 1)))
	}
	m["internal/bytealg.CompareString"] = m["internal/bytealg.Compare"]
	m["internal/bytealg.Index"] = func(e *Engine, fr *frame, a []value) value {
		return e.indexSub(bytesOf(a[0]), bytesOf(a[1]))
	}
	m["internal/bytealg.IndexString"] = m["internal/bytealg.Index"]
	m["internal/bytealg.Cutover"] = func(e *Engine, fr *frame, a []value) value { return e.intv(1 << 30) }
	m["internal/bytealg.MakeNoZero"] = func(e *Engine, fr *frame, a []value) value {
		n := int(e.concInt(a[0], "MakeNoZero"))
		s := make([]value, n)
		z := e.ts.Const(8, 0)
		for i := range s {
			s[i] = z
		}
		return s
	}
	m["internal/bytealg.HashStr[string]"] = func(e *Engine, fr *frame, a []value) value { e.unsupported("bytealg.HashStr"); return nil }
	// strings/bytes fast paths that would otherwise go through Rabin-Karp / hashing
	m["strings.Index"] = func(e *Engine, fr *frame, a []value) value {
		return e.indexSub(bytesOf(a[0]), bytesOf(a[1]))
	}
	m["bytes.Index"] = m["strings.Index"]
	m["strings.Count"] = func(e *Engine, fr *frame, a []value) value {
		s, sub := bytesOf(a[0]), bytesOf(a[1])
		if len(sub) == 0 {
			e.unsupported("strings.Count with empty separator")
		}
		if len(sub) == 1 {
			return m["internal/bytealg.Count"](e, fr, []value{a[0], sub[0]})
		}
		n := 0
		for {
			i := e.indexSubInt(s, sub)
			if i < 0 {
				return e.intv(n)
			}
			n++
			s = s[i+len(sub):]
		}
	}
	m["bytes.Count"] = m["strings.Count"]
	m["strings.LastIndex"] = func(e *Engine, fr *frame, a []value) value {
		s, sub := bytesOf(a[0]), bytesOf(a[1])
		for i := len(s) - len(sub); i >= 0; i-- {
			if e.branch(e.strEq(str{s[i : i+len(sub)]}, str{sub}), "lastindex") {
				return e.intv(i)
			}
		}
		return e.intv(-1)
	}

	// ---- strings.Builder (unsafe) ----
	m["(*strings.Builder).copyCheck"] = func(e *Engine, fr *frame, a []value) value { return nil }
	m["(*strings.Builder).String"] = func(e *Engine, fr *frame, a []value) value {
		b := a[0].(*value)
		st := (*b).(structure)
		// fields: addr *Builder; buf []byte
		buf, _ := st[1].([]value)
		c := make([]*Term, len(buf))
		for i, v := range buf {
			c[i] = v.(*Term)
		}
		return str{c}
	}
	m["strings.Clone"] = func(e *Engine, fr *frame, a []value) value { return a[0] }
	m["internal/stringslite.Clone"] = m["strings.Clone"]
	m["internal/abi.NoEscape"] = func(e *Engine, fr *frame, a []value) value { return a[0] }
	m["internal/abi.Escape[*strings.Builder]"] = func(e *Engine, fr *frame, a []value) value { return a[0] }

	// ---- runtime-ish no-ops ----
	for _, n := range []string{"runtime.KeepAlive", "runtime.SetFinalizer", "runtime.GC", "runtime.Gosched",
		"internal/race.Acquire", "internal/race.Release", "internal/race.ReleaseMerge", "internal/race.Disable",
		"internal/race.Enable", "internal/race.Read", "internal/race.Write", "internal/race.ReadRange", "internal/race.WriteRange",
		"internal/race.Errors"} {
		m[n] = func(e *Engine, fr *frame, a []value) value { return nil }
	}
	m["runtime.GOMAXPROCS"] = func(e *Engine, fr *frame, a []value) value { return e.intv(1) }

	// ---- sync ----
	lock := func(e *Engine, fr *frame, a []value) value {
		p := a[0].(*value)
		if e.ghost.mutexHeld[p] {
			e.ghostViolation("deadlock: Lock of a mutex already held by this RPC")
		}
		e.ghost.mutexHeld[p] = true
		return nil
	}
	unlock := func(e *Engine, fr *frame, a []value) value {
		p := a[0].(*value)
		if !e.ghost.mutexHeld[p] {
			e.goPanic("sync: unlock of unlocked mutex")
		}
		delete(e.ghost.mutexHeld, p)
		return nil
	}
	m["(*sync.Mutex).Lock"] = lock
	m["(*sync.Mutex).Unlock"] = unlock
	m["(*sync.RWMutex).Lock"] = lock
	m["(*sync.RWMutex).Unlock"] = unlock
	m["(*sync.RWMutex).RLock"] = func(e *Engine, fr *frame, a []value) value { return nil }
	m["(*sync.RWMutex).RUnlock"] = func(e *Engine, fr *frame, a []value) value { return nil }
	m["(*sync.Mutex).TryLock"] = func(e *Engine, fr *frame, a []value) value {
		p := a[0].(*value)
		if e.ghost.mutexHeld[p] {
			return e.ts.False
		}
		e.ghost.mutexHeld[p] = true
		return e.ts.True
	}
	m["(*sync.Pool).Get"] = func(e *Engine, fr *frame, a []value) value { return e.poolGet(fr, a[0].(*value)) }
	m["(*sync.Pool).Put"] = func(e *Engine, fr *frame, a []value) value { e.poolPut(a[0].(*value), a[1]); return nil }
	m["(*sync.WaitGroup).Add"] = func(e *Engine, fr *frame, a []value) value { return nil }
	m["(*sync.WaitGroup).Done"] = func(e *Engine, fr *frame, a []value) value { return nil }
	m["(*sync.WaitGroup).Wait"] = func(e *Engine, fr *frame, a []value) value { return nil }

	// ---- sync/atomic (sequential semantics) ----
	loadF := func(e *Engine, fr *frame, a []value) value { return e.load(a[0].(*value)) }
	storeF := func(e *Engine, fr *frame, a []value) value { e.store(a[0].(*value), a[1]); return nil }
	addF := func(e *Engine, fr *frame, a []value) value {
		p := a[0].(*value)
		n := e.ts.Bin(OpAdd, (*p).(*Term), a[1].(*Term))
		e.store(p, n)
		return n
	}
	swapF := func(e *Engine, fr *frame, a []value) value {
		p := a[0].(*value)
		old := e.load(p)
		e.store(p, a[1])
		return old
	}
	casF := func(e *Engine, fr *frame, a []value) value {
		p := a[0].(*value)
		cur := e.load(p)
		var eq *Term
		switch c := cur.(type) {
		case *Term:
			eq = e.ts.Eq(c, a[1].(*Term))
		case unsafePtr:
			o, _ := a[1].(unsafePtr)
			eq = e.ts.Bool(c.v == o.v)
		default:
			e.unsupported("CompareAndSwap on unexpected cell")
		}
		if e.branch(eq, "cas") {
			e.store(p, a[2])
			return e.ts.True
		}
		return e.ts.False
	}
	for _, t := range []string{"Int32", "Int64", "Uint32", "Uint64", "Uintptr", "Pointer"} {
		m["sync/atomic.Load"+t] = loadF
		m["sync/atomic.Store"+t] = storeF
		m["sync/atomic.Swap"+t] = swapF
		m["sync/atomic.CompareAndSwap"+t] = casF
		if t != "Pointer" {
			m["sync/atomic.Add"+t] = addF
		}
	}
	m["internal/runtime/atomic.Load"] = loadF
	m["internal/runtime/atomic.Store"] = storeF

	// ---- errors ----
	m["errors.Is"] = func(e *Engine, fr *frame, a []value) value { return e.errorsIs(fr, a[0], a[1]) }
	m["errors.As"] = func(e *Engine, fr *frame, a []value) value { return e.errorsAs(fr, a[0], a[1]) }

	// ---- fmt ----
	m["fmt.Errorf"] = func(e *Engine, fr *frame, a []value) value { return e.fmtErrorf(fr, a[0].(str), a[1]) }
	m["fmt.Sprintf"] = func(e *Engine, fr *frame, a []value) value {
		s, _ := e.format(fr, a[0].(str), a[1])
		return s
	}
	m["fmt.Sprint"] = func(e *Engine, fr *frame, a []value) value {
		s, _ := e.format(fr, e.mkstr(strings.Repeat("%v", len(a[0].([]value)))), a[0])
		return s
	}
	m["fmt.Fprintln"] = func(e *Engine, fr *frame, a []value) value {
		args := a[1].([]value)
		s, _ := e.format(fr, e.mkstr(strings.TrimSuffix(strings.Repeat("%v ", len(args)), " ")+"\n"), a[1])
		return e.writeTo(fr, a[0], s)
	}
	m["fmt.Fprintf"] = func(e *Engine, fr *frame, a []value) value {
		s, _ := e.format(fr, a[1].(str), a[2])
		return e.writeTo(fr, a[0], s)
	}
	m["fmt.Fprint"] = func(e *Engine, fr *frame, a []value) value {
		s, _ := e.format(fr, e.mkstr(strings.Repeat("%v", len(a[1].([]value)))), a[1])
		return e.writeTo(fr, a[0], s)
	}

	// ---- strconv helpers used only for messages ----
	m["strconv.Quote"] = func(e *Engine, fr *frame, a []value) value {
		s := a[0].(str)
		c := append([]*Term{e.ts.Const(8, '"')}, s.c...)
		c = append(c, e.ts.Const(8, '"'))
		return str{c}
	}
	m["strconv.QuoteRune"] = func(e *Engine, fr *frame, a []value) value { return e.mkstr("'?'") }

	// strconv formatting (base 10): contract model — digit count forked by range, digits are
	// fresh auxiliary variables constrained by sum(d_i * 10^i) == |x| (uniquely determined).
	m["strconv.FormatInt"] = func(e *Engine, fr *frame, a []value) value {
		return e.formatInt(a[0].(*Term), true, a[1].(*Term))
	}
	m["strconv.FormatUint"] = func(e *Engine, fr *frame, a []value) value {
		return e.formatInt(a[0].(*Term), false, a[1].(*Term))
	}
	m["strconv.Itoa"] = func(e *Engine, fr *frame, a []value) value {
		return e.formatInt(a[0].(*Term), true, e.ts.Const(64, 10))
	}

	// concrete floating point only (symbolic floats are outside the encoding)
	m["strconv.FormatFloat"] = func(e *Engine, fr *frame, a []value) value {
		f, ok := a[0].(float64)
		fm, ok2 := a[1].(*Term)
		pr, ok3 := a[2].(*Term)
		bs, ok4 := a[3].(*Term)
		if !ok || !ok2 || !ok3 || !ok4 || !fm.IsConst() || !pr.IsConst() || !bs.IsConst() {
			e.unsupported("strconv.FormatFloat on symbolic value")
		}
		return e.mkstr(strconv.FormatFloat(f, byte(fm.Val), int(int64(pr.Val)), int(bs.Val)))
	}
	m["strconv.ParseFloat"] = func(e *Engine, fr *frame, a []value) value {
		s, ok := a[0].(str).concrete()
		if !ok {
			if e.specDepth > 0 {
				panic(specAbort{"float"})
			}
			panic(pathEnd{kind: "outside", reason: "floating point on symbolic values (REST X-Server-Timeout, float parameters) is outside the encoding"})
		}
		f, err := strconv.ParseFloat(s, int(a[1].(*Term).Val))
		if err != nil {
			// the error value is built by strconv's own constructors (interpreted from their SSA)
			name := "syntaxError"
			if errors.Is(err, strconv.ErrRange) {
				name = "rangeError"
			}
			pk := e.prog.ImportedPackage("strconv")
			if pk == nil || pk.Func(name) == nil {
				e.unsupported("strconv.ParseFloat error path")
			}
			fn := pk.Func(name)
			ne := e.call(fr, 0, fn, []value{e.mkstr("ParseFloat"), e.mkstr(s)})
			return tuple{f, iface{t: types.NewPointer(pk.Type("NumError").Type()), v: ne}}
		}
		return tuple{f, iface{}}
	}
	m["math.Float64bits"] = func(e *Engine, fr *frame, a []value) value {
		return e.ts.Const(64, math.Float64bits(a[0].(float64)))
	}
	m["math.Float64frombits"] = func(e *Engine, fr *frame, a []value) value {
		t := a[0].(*Term)
		if !t.IsConst() {
			e.unsupported("math.Float64frombits on symbolic value")
		}
		return math.Float64frombits(t.Val)
	}

	// ---- protoreflect.Value (unsafe representation): string and bytes payloads only ----
	// layout: {DoNotCompare [0]func(), typ unsafe.Pointer, ptr unsafe.Pointer, num uint64}; the engine
	// keeps a tag string in typ and the payload in ptr.
	pv := func(e *Engine, tag string, payload value) value {
		return structure{array{}, unsafePtr{v: tag}, unsafePtr{v: payload}, e.ts.Const(64, 0)}
	}
	pvTag := func(v value) (string, value) {
		st, ok := v.(structure)
		if !ok || len(st) != 4 {
			return "", nil
		}
		t, _ := st[1].(unsafePtr)
		p, _ := st[2].(unsafePtr)
		tag, _ := t.v.(string)
		return tag, p.v
	}
	m["google.golang.org/protobuf/reflect/protoreflect.ValueOfString"] = func(e *Engine, fr *frame, a []value) value {
		return pv(e, "string", a[0])
	}
	m["google.golang.org/protobuf/reflect/protoreflect.ValueOfBytes"] = func(e *Engine, fr *frame, a []value) value {
		return pv(e, "bytes", a[0])
	}
	m["(google.golang.org/protobuf/reflect/protoreflect.Value).String"] = func(e *Engine, fr *frame, a []value) value {
		tag, p := pvTag(a[0])
		if tag != "string" {
			e.unsupported("protoreflect.Value.String on a non-string value")
		}
		return p
	}
	m["(google.golang.org/protobuf/reflect/protoreflect.Value).Bytes"] = func(e *Engine, fr *frame, a []value) value {
		tag, p := pvTag(a[0])
		if tag != "bytes" {
			e.goPanic("protoreflect: value is not bytes")
		}
		return p
	}
	m["(google.golang.org/protobuf/reflect/protoreflect.Value).IsValid"] = func(e *Engine, fr *frame, a []value) value {
		tag, _ := pvTag(a[0])
		return e.ts.Bool(tag != "")
	}
	// scalar payloads: the term is kept as the payload; accessors check the tag like the real ones (panic otherwise)
	const prPkg = "google.golang.org/protobuf/reflect/protoreflect."
	for _, sc := range []struct{ ctor, tag string }{
		{"ValueOfBool", "bool"}, {"ValueOfInt32", "int32"}, {"ValueOfInt64", "int64"},
		{"ValueOfUint32", "uint32"}, {"ValueOfUint64", "uint64"}, {"ValueOfEnum", "enum"},
	} {
		tag := sc.tag
		m[prPkg+sc.ctor] = func(e *Engine, fr *frame, a []value) value { return pv(e, tag, a[0]) }
	}
	scalarType := func(e *Engine, tag string) types.Type {
		switch tag {
		case "bool":
			return types.Typ[types.Bool]
		case "int32":
			return types.Typ[types.Int32]
		case "int64":
			return types.Typ[types.Int64]
		case "uint32":
			return types.Typ[types.Uint32]
		case "uint64":
			return types.Typ[types.Uint64]
		case "string":
			return types.Typ[types.String]
		case "enum":
			if pk := e.prog.ImportedPackage("google.golang.org/protobuf/reflect/protoreflect"); pk != nil {
				if t := pk.Type("EnumNumber"); t != nil {
					return t.Type()
				}
			}
		}
		return nil
	}
	m[prPkg+"ValueOf"] = func(e *Engine, fr *frame, a []value) value {
		itf, ok := a[0].(iface)
		if !ok || itf.t == nil {
			return structure{array{}, unsafePtr{}, unsafePtr{}, e.ts.Const(64, 0)}
		}
		for _, tag := range []string{"bool", "int32", "int64", "uint32", "uint64", "string", "enum"} {
			if t := scalarType(e, tag); t != nil && types.Identical(t, itf.t) {
				return pv(e, tag, itf.v)
			}
		}
		if sl, ok := itf.t.Underlying().(*types.Slice); ok && types.Identical(sl.Elem(), types.Typ[types.Byte]) {
			return pv(e, "bytes", itf.v)
		}
		e.unsupported("protoreflect.ValueOf on " + itf.t.String())
		return nil
	}
	m["("+prPkg+"Value).Interface"] = func(e *Engine, fr *frame, a []value) value {
		tag, p := pvTag(a[0])
		if tag == "" {
			return iface{}
		}
		if tag == "bytes" {
			return iface{t: types.NewSlice(types.Typ[types.Byte]), v: p}
		}
		if t := scalarType(e, tag); t != nil {
			return iface{t: t, v: p}
		}
		e.unsupported("protoreflect.Value.Interface on " + tag)
		return nil
	}
	m[prPkg+"ValueOfList"] = func(e *Engine, fr *frame, a []value) value { return pv(e, "list", a[0]) }
	m["("+prPkg+"Value).List"] = func(e *Engine, fr *frame, a []value) value {
		tag, p := pvTag(a[0])
		if tag != "list" {
			e.goPanic("protoreflect: value is not a list")
		}
		return p
	}
	m[prPkg+"ValueOfMessage"] = func(e *Engine, fr *frame, a []value) value { return pv(e, "message", a[0]) }
	m["("+prPkg+"Value).Message"] = func(e *Engine, fr *frame, a []value) value {
		tag, p := pvTag(a[0])
		if tag != "message" {
			e.goPanic("protoreflect: value is not a message")
		}
		return p
	}
	m["("+prPkg+"Value).Bool"] = func(e *Engine, fr *frame, a []value) value {
		tag, p := pvTag(a[0])
		if tag != "bool" {
			e.goPanic("protoreflect: value is not bool")
		}
		return p
	}
	m["("+prPkg+"Value).Int"] = func(e *Engine, fr *frame, a []value) value {
		tag, p := pvTag(a[0])
		switch tag {
		case "int32":
			return e.ts.SExt(p.(*Term), 64)
		case "int64":
			return p
		}
		e.goPanic("protoreflect: value is not int")
		return nil
	}
	m["("+prPkg+"Value).Uint"] = func(e *Engine, fr *frame, a []value) value {
		tag, p := pvTag(a[0])
		switch tag {
		case "uint32":
			return e.ts.ZExt(p.(*Term), 64)
		case "uint64":
			return p
		}
		e.goPanic("protoreflect: value is not uint")
		return nil
	}
	m["("+prPkg+"Value).Enum"] = func(e *Engine, fr *frame, a []value) value {
		tag, p := pvTag(a[0])
		if tag != "enum" {
			e.goPanic("protoreflect: value is not enum")
		}
		return p
	}

	// ---- time ----
	m["time.Now"] = func(e *Engine, fr *frame, a []value) value {
		// wall=0 (no monotonic), ext = seconds since year 1, loc=nil (UTC)
		return structure{e.ts.Const(64, 0), e.ts.Const(64, 63800000000), (*value)(nil)}
	}
	m["time.Since"] = func(e *Engine, fr *frame, a []value) value { return e.ts.Const(64, 0) }
	m["time.Sleep"] = func(e *Engine, fr *frame, a []value) value { return nil }

	// ---- unicode/utf8 fast models ----
	m["unicode/utf8.DecodeRuneInString"] = func(e *Engine, fr *frame, a []value) value {
		c := bytesOf(a[0])
		if len(c) == 0 {
			return tuple{e.ts.Const(32, 0xFFFD), e.intv(0)}
		}
		r, n := e.decodeRune(c)
		return tuple{r, e.intv(n)}
	}
	m["unicode/utf8.DecodeRune"] = m["unicode/utf8.DecodeRuneInString"]

	return m
}

// ---- helpers used by intrinsics -------------------------------------------

func (e *Engine) indexByte(b []*Term, c *Term) value {
	for i, x := range b {
		if e.branch(e.ts.Eq(x, c), "indexbyte") {
			return e.intv(i)
		}
	}
	return e.intv(-1)
}

func (e *Engine) indexSubInt(s, sub []*Term) int {
	if len(sub) == 0 {
		return 0
	}
	for i := 0; i+len(sub) <= len(s); i++ {
		if e.branch(e.strEq(str{s[i : i+len(sub)]}, str{sub}), "index") {
			return i
		}
	}
	return -1
}

func (e *Engine) indexSub(s, sub []*Term) value { return e.intv(e.indexSubInt(s, sub)) }

func (e *Engine) ghostViolation(msg string) {
	e.goPanic("ghost: " + msg)
}

func (e *Engine) ghostCount(what string) int {
	switch what {
	case "pool.live":
		return len(e.ghost.live)
	case "mutex.held":
		return len(e.ghost.mutexHeld)
	}
	return 0
}

// writeTo calls w.Write([]byte(s)) on an io.Writer interface value.
func (e *Engine) writeTo(fr *frame, w value, s str) value {
	itf := w.(iface)
	if itf.t == nil {
		e.goPanic("runtime error: invalid memory address or nil pointer dereference")
	}
	fn := e.findMethod(itf.t, "Write")
	if fn == nil {
		e.unsupported("writer without Write method")
	}
	buf := make([]value, len(s.c))
	for i, c := range s.c {
		buf[i] = c
	}
	return e.call(fr, 0, fn, []value{itf.v, buf})
}

// findMethod looks up an exported method by name on a dynamic type.
func (e *Engine) findMethod(t types.Type, name string) *ssa.Function {
	ms := e.prog.MethodSets.MethodSet(t)
	for i := 0; i < ms.Len(); i++ {
		sel := ms.At(i)
		if sel.Obj().Name() == name {
			return e.prog.MethodValue(sel)
		}
	}
	return nil
}

// callErrorMethod calls err.Error() and returns the string.
func (e *Engine) callStringMethod(fr *frame, v iface, name string) (str, bool) {
	fn := e.findMethod(v.t, name)
	if fn == nil {
		return str{}, false
	}
	r := e.call(fr, 0, fn, []value{v.v})
	s, ok := r.(str)
	return s, ok
}

// ---- errors.Is / errors.As -------------------------------------------------

func (e *Engine) unwrapOnce(fr *frame, err iface) (single iface, multi []value, ok bool) {
	fn := e.findMethod(err.t, "Unwrap")
	if fn == nil {
		return iface{}, nil, false
	}
	res := fn.Signature.Results()
	if res.Len() != 1 {
		return iface{}, nil, false
	}
	r := e.call(fr, 0, fn, []value{err.v})
	switch r := r.(type) {
	case iface:
		if _, isSlice := res.At(0).Type().Underlying().(*types.Slice); isSlice {
			return iface{}, nil, false
		}
		return r, nil, true
	case []value:
		return iface{}, r, true
	}
	return iface{}, nil, false
}

func (e *Engine) errorsIs(fr *frame, errv, targetv value) value {
	err, target := errv.(iface), targetv.(iface)
	if err.t == nil || target.t == nil {
		return e.ts.Bool(err.t == nil && target.t == nil)
	}
	comparable := types.Comparable(target.t)
	var walk func(err iface) bool
	walk = func(err iface) bool {
		for {
			if comparable && types.Identical(err.t, target.t) {
				eq := e.equals(err.t, err.v, target.v)
				if e.branch(eq, "errors.Is") {
					return true
				}
			}
			if isFn := e.findMethod(err.t, "Is"); isFn != nil && isFn.Signature.Params().Len() == 1 && isFn.Signature.Results().Len() == 1 {
				r := e.call(fr, 0, isFn, []value{err.v, target})
				if t, ok := r.(*Term); ok && e.branch(t, "errors.Is.method") {
					return true
				}
			}
			single, multi, ok := e.unwrapOnce(fr, err)
			if !ok {
				return false
			}
			if multi != nil {
				for _, m := range multi {
					mi := m.(iface)
					if mi.t == nil {
						continue
					}
					if walk(mi) {
						return true
					}
				}
				return false
			}
			if single.t == nil {
				return false
			}
			err = single
		}
	}
	return e.ts.Bool(walk(err))
}

func (e *Engine) errorsAs(fr *frame, errv, targetv value) value {
	err := errv.(iface)
	target := targetv.(iface)
	if err.t == nil {
		return e.ts.False
	}
	if target.t == nil {
		e.goPanic("errors: target cannot be nil")
	}
	pt, ok := target.t.Underlying().(*types.Pointer)
	if !ok {
		e.goPanic("errors: target must be a non-nil pointer")
	}
	tp := target.v.(*value)
	if tp == nil {
		e.goPanic("errors: target must be a non-nil pointer")
	}
	targetType := pt.Elem()
	tIface, isIface := targetType.Underlying().(*types.Interface)
	var walk func(err iface) bool
	walk = func(err iface) bool {
		for {
			if isIface {
				if e.implements(err.t, tIface) {
					e.store(tp, err)
					return true
				}
			} else if types.Identical(err.t, targetType) {
				e.store(tp, err.v)
				return true
			}
			if asFn := e.findMethod(err.t, "As"); asFn != nil && asFn.Signature.Params().Len() == 1 {
				r := e.call(fr, 0, asFn, []value{err.v, target})
				if t, ok := r.(*Term); ok && e.branch(t, "errors.As.method") {
					return true
				}
			}
			single, multi, ok := e.unwrapOnce(fr, err)
			if !ok {
				return false
			}
			if multi != nil {
				for _, m := range multi {
					mi := m.(iface)
					if mi.t == nil {
						continue
					}
					if walk(mi) {
						return true
					}
				}
				return false
			}
			if single.t == nil {
				return false
			}
			err = single
		}
	}
	return e.ts.Bool(walk(err))
}

// ---- fmt model --------------------------------------------------------------

// format renders a format string with args ([]any). Symbolic string content passes through for
// %s/%v/%q of strings and errors; anything else is rendered as a short concrete placeholder.
// Returns the string and the operands of %w verbs.
func (e *Engine) format(fr *frame, f str, argsv value) (str, []iface) {
	var args []value
	if argsv != nil {
		args, _ = argsv.([]value)
	}
	fs, ok := f.concrete()
	if !ok {
		e.unsupported("symbolic format string")
	}
	var out []*Term
	lit := func(s string) {
		for i := 0; i < len(s); i++ {
			out = append(out, e.ts.Const(8, uint64(s[i])))
		}
	}
	var wrapped []iface
	ai := 0
	for i := 0; i < len(fs); i++ {
		c := fs[i]
		if c != '%' {
			out = append(out, e.ts.Const(8, uint64(c)))
			continue
		}
		i++
		// skip flags/width
		for i < len(fs) && strings.ContainsRune("+-# 0123456789.", rune(fs[i])) {
			i++
		}
		if i >= len(fs) {
			lit("%!(NOVERB)")
			break
		}
		verb := fs[i]
		if verb == '%' {
			lit("%")
			continue
		}
		if ai >= len(args) {
			lit("%!" + string(verb) + "(MISSING)")
			continue
		}
		arg := args[ai].(iface)
		ai++
		if verb == 'w' {
			wrapped = append(wrapped, arg)
		}
		if verb == 'T' {
			if arg.t == nil {
				lit("<nil>")
			} else {
				lit(arg.t.String())
			}
			continue
		}
		if verb == 'q' {
			lit("\"")
		}
		out = append(out, e.renderArg(fr, arg, verb)...)
		if verb == 'q' {
			lit("\"")
		}
	}
	return str{out}, wrapped
}

func (e *Engine) renderArg(fr *frame, arg iface, verb byte) []*Term {
	lit := func(s string) []*Term { return e.mkstr(s).c }
	if arg.t == nil {
		return lit("<nil>")
	}
	// error / Stringer
	if s, ok := e.callStringMethod(fr, arg, "Error"); ok && verb != 'd' {
		return s.c
	}
	if _, isBasic := arg.t.Underlying().(*types.Basic); !isBasic || verb == 'v' || verb == 's' {
		if fn := e.findMethod(arg.t, "String"); fn != nil && fn.Signature.Params().Len() == 0 && verb != 'd' {
			if s, ok := e.callStringMethod(fr, arg, "String"); ok {
				return s.c
			}
		}
	}
	switch v := arg.v.(type) {
	case str:
		return v.c
	case *Term:
		if v.IsConst() {
			if v.W == 0 {
				if v.Val != 0 {
					return lit("true")
				}
				return lit("false")
			}
			_, signed, _ := typeWidth(arg.t)
			if signed {
				return lit(fmt.Sprint(sext64(v.Val, v.W)))
			}
			return lit(fmt.Sprint(v.Val))
		}
		if v.W > 0 && (verb == 'd' || verb == 'v') {
			_, signed, _ := typeWidth(arg.t)
			x := v
			if x.W < 64 {
				if signed {
					x = e.ts.SExt(x, 64)
				} else {
					x = e.ts.ZExt(x, 64)
				}
			}
			if s, ok := e.formatInt(x, signed, e.ts.Const(64, 10)).(str); ok {
				return s.c
			}
		}
		return lit("<sym>")
	case []value:
		if len(v) > 0 {
			if _, ok := v[0].(*Term); ok && verb == 's' {
				c := make([]*Term, len(v))
				for i := range v {
					c[i] = v[i].(*Term)
				}
				return c
			}
		}
		return lit("[...]")
	case float64:
		// concrete floats: the real fmt does the work (plain verbs only; flags and widths are not parsed by this model)
		switch verb {
		case 'f', 'F', 'e', 'E', 'g', 'G':
			return lit(fmt.Sprintf("%"+string(verb), v))
		}
		return lit(fmt.Sprint(v))
	}
	return lit("<" + arg.t.String() + ">")
}

// fmtErrorf builds the same concrete types fmt.Errorf would (*fmt.wrapError, *fmt.wrapErrors, *errors.errorString).
func (e *Engine) fmtErrorf(fr *frame, f str, argsv value) value {
	s, wrapped := e.format(fr, f, argsv)
	fmtPkg := e.prog.ImportedPackage("fmt")
	switch len(wrapped) {
	case 0:
		errorsPkg := e.prog.ImportedPackage("errors")
		t := errorsPkg.Type("errorString").Object().Type()
		cell := new(value)
		*cell = structure{s}
		return iface{t: types.NewPointer(t), v: cell}
	case 1:
		t := fmtPkg.Type("wrapError").Object().Type()
		cell := new(value)
		*cell = structure{s, wrapped[0]}
		return iface{t: types.NewPointer(t), v: cell}
	default:
		t := fmtPkg.Type("wrapErrors").Object().Type()
		errs := make([]value, len(wrapped))
		for i, w := range wrapped {
			errs[i] = w
		}
		cell := new(value)
		*cell = structure{s, errs}
		return iface{t: types.NewPointer(t), v: cell}
	}
}

// ---- sync.Pool ghost ---------------------------------------------------------

func (e *Engine) poolGet(fr *frame, p *value) value {
	g := e.ghost.pools[p]
	if g == nil {
		g = &poolGhost{}
		e.ghost.pools[p] = g
	}
	reuse := false
	switch e.ghost.poolMode {
	case 0:
		reuse = false
	case 1:
		reuse = g.hasPrivate || len(g.items) > 0
	case 2:
		if g.hasPrivate || len(g.items) > 0 {
			reuse = e.choose("pool.reuse", 2) == 1
		}
	}
	if reuse {
		var it value
		if g.hasPrivate {
			it, g.private, g.hasPrivate = g.private, nil, false
		} else {
			it = g.items[len(g.items)-1]
			g.items = g.items[:len(g.items)-1]
		}
		if pv, ok := ifacePtr(it); ok {
			delete(e.ghost.released, pv)
			e.ghost.live[pv] = true
		}
		return it
	}
	// call New
	st := (*p).(structure)
	newFn := st[len(st)-1]
	isNil := false
	switch f := newFn.(type) {
	case *ssa.Function:
		isNil = f == nil
	case *closure:
		isNil = f == nil
	case nil:
		isNil = true
	}
	if isNil {
		return iface{}
	}
	r := e.call(fr, 0, newFn, nil)
	if pv, ok := ifacePtr(r); ok {
		e.ghost.live[pv] = true
	}
	return r
}

func ifacePtr(v value) (*value, bool) {
	itf, ok := v.(iface)
	if !ok || itf.t == nil {
		return nil, false
	}
	p, ok := itf.v.(*value)
	return p, ok && p != nil
}

func (e *Engine) poolPut(p *value, x value) {
	g := e.ghost.pools[p]
	if g == nil {
		g = &poolGhost{}
		e.ghost.pools[p] = g
	}
	if pv, ok := ifacePtr(x); ok {
		// a double Put is not trapped here: the pool then holds the object twice, which the harnesses
		// observe (natively too) by draining the pool and comparing identities
		e.ghost.released[pv] = true
		delete(e.ghost.live, pv)
	}
	if itf, ok := x.(iface); ok && itf.t == nil {
		return
	}
	if !g.hasPrivate {
		g.private, g.hasPrivate = x, true
		return
	}
	g.items = append(g.items, x)
}

func (e *Engine) formatInt(x *Term, signed bool, base *Term) value {
	if !base.IsConst() {
		e.unsupported("FormatInt with symbolic base")
	}
	if x.IsConst() {
		if signed {
			return e.mkstr(strconv.FormatInt(int64(x.Val), int(base.Val)))
		}
		return e.mkstr(strconv.FormatUint(x.Val, int(base.Val)))
	}
	if base.Val != 10 {
		e.unsupported("FormatInt of symbolic value with base != 10")
	}
	ts := e.ts
	var out []*Term
	ux := x
	if signed {
		if e.branch(ts.Cmp(OpSLt, x, ts.Const(64, 0)), "fmtint.sign") {
			out = append(out, ts.Const(8, '-'))
			ux = ts.Un(OpNeg, x)
		}
	}
	// digit count
	nd := 20
	p := uint64(10)
	for k := 1; k <= 19; k++ {
		if e.branch(ts.Cmp(OpULt, ux, ts.Const(64, p)), "fmtint.digits") {
			nd = k
			break
		}
		p *= 10
	}
	e.fmtSeq++
	digits := make([]*Term, nd)
	sum := ts.Const(64, 0)
	pow := uint64(1)
	for i := nd - 1; i >= 0; i-- {
		d := ts.Var(8, fmt.Sprintf("%s!fmtdigit!%d!%d", e.harness, e.fmtSeq, i))
		e.pathVars = append(e.pathVars, d)
		e.assumeAux(ts.Cmp(OpULe, d, ts.Const(8, 9)))
		digits[i] = ts.Bin(OpAdd, d, ts.Const(8, '0'))
		sum = ts.Bin(OpAdd, sum, ts.Bin(OpMul, ts.ZExt(d, 64), ts.Const(64, pow)))
		pow *= 10
	}
	e.assumeAux(ts.Eq(sum, ux))
	e.arithUsed = true
	return str{append(out, digits...)}
}
