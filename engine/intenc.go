package main

import (
	"fmt"
	"math/big"
	"math/bits"
	"strings"
)

// Integer (LIA) encoding of the bit-vector term DAG. Every bv term of width w denotes an
// integer in [0, 2^w). The mod-2^w reductions that keep the wrap-around semantics are omitted
// only where a cheap unsigned bound (umax) shows that no wrap can occur. Bitwise operations
// without an arithmetic reading make the term "non-linear" for this encoding: the LIA back end
// then answers unknown and the bit-vector back ends decide.

func pow2(w uint8) string {
	return new(big.Int).Lsh(big.NewInt(1), uint(w)).String()
}

func isPow2(v uint64) (uint, bool) {
	if v != 0 && v&(v-1) == 0 {
		return uint(bits.TrailingZeros64(v)), true
	}
	return 0, false
}

func intRef(t *Term) string {
	switch t.Op {
	case OpConst:
		if t.W == 0 {
			if t.Val != 0 {
				return "true"
			}
			return "false"
		}
		return fmt.Sprintf("%d", t.Val)
	case OpVar:
		return "|" + t.Name + "|"
	}
	return fmt.Sprintf("i%d", t.ID)
}

func intSort(t *Term) string {
	if t.W == 0 {
		return "Bool"
	}
	return "Int"
}

// nonNeg: sign bit provably clear.
func nonNeg(t *Term) bool { return umax(t) <= mask(t.W)>>1 }

func toSigned(t *Term) string {
	r := intRef(t)
	if nonNeg(t) {
		return r
	}
	return fmt.Sprintf("(ite (>= %s %s) (- %s %s) %s)", r, pow2(t.W-1), r, pow2(t.W), r)
}

func modW(expr string, w uint8) string {
	return fmt.Sprintf("(mod %s %s)", expr, pow2(w))
}

// intBody renders the definition body; ok=false if the term has no arithmetic reading.
func intBody(t *Term) (string, bool) {
	a, b, c := t.A[0], t.A[1], t.A[2]
	switch t.Op {
	case OpAdd:
		s, carry := bits.Add64(umax(a), umax(b), 0)
		e := fmt.Sprintf("(+ %s %s)", intRef(a), intRef(b))
		if carry == 0 && s <= mask(t.W) {
			return e, true
		}
		return modW(e, t.W), true
	case OpSub:
		return modW(fmt.Sprintf("(- %s %s)", intRef(a), intRef(b)), t.W), true
	case OpMul:
		hi, lo := bits.Mul64(umax(a), umax(b))
		e := fmt.Sprintf("(* %s %s)", intRef(a), intRef(b))
		if hi == 0 && lo <= mask(t.W) {
			return e, true
		}
		return modW(e, t.W), true
	case OpUDiv:
		return fmt.Sprintf("(div %s %s)", intRef(a), intRef(b)), true
	case OpURem:
		return fmt.Sprintf("(mod %s %s)", intRef(a), intRef(b)), true
	case OpSDiv, OpSRem:
		if nonNeg(a) && nonNeg(b) {
			if t.Op == OpSDiv {
				return fmt.Sprintf("(div %s %s)", intRef(a), intRef(b)), true
			}
			return fmt.Sprintf("(mod %s %s)", intRef(a), intRef(b)), true
		}
		sa, sb := toSigned(a), toSigned(b)
		abs := func(s string) string { return fmt.Sprintf("(ite (>= %s 0) %s (- %s))", s, s, s) }
		q := fmt.Sprintf("(div %s %s)", abs(sa), abs(sb))
		if t.Op == OpSDiv {
			// truncated quotient: sign = sign(a) xor sign(b)
			e := fmt.Sprintf("(ite (= (>= %s 0) (>= %s 0)) %s (- %s))", sa, sb, q, q)
			return modW(e, t.W), true
		}
		r := fmt.Sprintf("(mod %s %s)", abs(sa), abs(sb))
		e := fmt.Sprintf("(ite (>= %s 0) %s (- %s))", sa, r, r)
		return modW(e, t.W), true
	case OpAnd:
		// x & (2^k - 1) == x mod 2^k
		if b.IsConst() {
			if k, ok := isPow2(b.Val + 1); ok && b.Val != ^uint64(0) {
				return fmt.Sprintf("(mod %s %s)", intRef(a), pow2(uint8(k))), true
			}
		}
		return "", false
	case OpOr, OpXor:
		return "", false
	case OpShl:
		if b.IsConst() && b.Val < uint64(t.W) {
			return modW(fmt.Sprintf("(* %s %s)", intRef(a), pow2(uint8(b.Val))), t.W), true
		}
		return "", false
	case OpLShr:
		if b.IsConst() && b.Val < uint64(t.W) {
			return fmt.Sprintf("(div %s %s)", intRef(a), pow2(uint8(b.Val))), true
		}
		return "", false
	case OpAShr:
		if b.IsConst() && b.Val < uint64(t.W) && nonNeg(a) {
			return fmt.Sprintf("(div %s %s)", intRef(a), pow2(uint8(b.Val))), true
		}
		return "", false
	case OpBVNot:
		return fmt.Sprintf("(- %d %s)", mask(t.W), intRef(a)), true
	case OpNeg:
		return modW(fmt.Sprintf("(- %s)", intRef(a)), t.W), true
	case OpExtract:
		hi, lo := uint8(t.Val>>8), uint8(t.Val)
		e := intRef(a)
		if lo > 0 {
			e = fmt.Sprintf("(div %s %s)", e, pow2(lo))
		}
		if hi+1 < a.W {
			if umax(a)>>lo > mask(hi-lo+1) {
				e = fmt.Sprintf("(mod %s %s)", e, pow2(hi-lo+1))
			}
		}
		return e, true
	case OpZExt:
		return intRef(a), true
	case OpSExt:
		if nonNeg(a) {
			return intRef(a), true
		}
		diff := new(big.Int).Sub(new(big.Int).Lsh(big.NewInt(1), uint(t.W)), new(big.Int).Lsh(big.NewInt(1), uint(a.W)))
		return fmt.Sprintf("(ite (>= %s %s) (+ %s %s) %s)", intRef(a), pow2(a.W-1), intRef(a), diff.String(), intRef(a)), true
	case OpConcat:
		return fmt.Sprintf("(+ (* %s %s) %s)", intRef(a), pow2(b.W), intRef(b)), true
	case OpEq:
		return fmt.Sprintf("(= %s %s)", intRef(a), intRef(b)), true
	case OpULt:
		return fmt.Sprintf("(< %s %s)", intRef(a), intRef(b)), true
	case OpULe:
		return fmt.Sprintf("(<= %s %s)", intRef(a), intRef(b)), true
	case OpSLt:
		return fmt.Sprintf("(< %s %s)", toSigned(a), toSigned(b)), true
	case OpSLe:
		return fmt.Sprintf("(<= %s %s)", toSigned(a), toSigned(b)), true
	case OpNot:
		return fmt.Sprintf("(not %s)", intRef(a)), true
	case OpBAnd:
		return fmt.Sprintf("(and %s %s)", intRef(a), intRef(b)), true
	case OpBOr:
		return fmt.Sprintf("(or %s %s)", intRef(a), intRef(b)), true
	case OpIte:
		return fmt.Sprintf("(ite %s %s %s)", intRef(a), intRef(b), intRef(c)), true
	}
	return "", false
}

// parseIntValue parses an SMT-LIB integer value token sequence: N or (- N).
func parseIntValue(toks []string, p int) (uint64, int, bool) {
	if p >= len(toks) {
		return 0, p, false
	}
	if toks[p] == "(" {
		if p+3 < len(toks) && toks[p+1] == "-" && toks[p+3] == ")" {
			n, ok := new(big.Int).SetString(toks[p+2], 10)
			if !ok {
				return 0, p, false
			}
			n.Neg(n)
			return new(big.Int).And(n, new(big.Int).SetUint64(^uint64(0))).Uint64(), p + 4, true
		}
		return 0, p, false
	}
	if strings.ContainsAny(toks[p], "0123456789") {
		n, ok := new(big.Int).SetString(toks[p], 10)
		if !ok {
			return 0, p, false
		}
		return n.Uint64(), p + 1, true
	}
	return 0, p, false
}
