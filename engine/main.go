package main

import (
	"encoding/json"
	"flag"
	"fmt"
	"os"
	"runtime"
	"sort"
	"strings"
	"time"
)

func defaultConfig(tier string) *Config {
	return &Config{
		Tier:        tier,
		StepBudget:  3_000_000,
		MaxConc:     64,
		SamplesPer:  8,
		CrossEvery:  25,
		PerQueryMs:  20000,
		Solvers:     []string{"z3new", "cvc5", "z3"},
		ArithSolver: []string{"z3lia", "cvc5lia", "cvc5int", "z3new"},
	}
}

func main() {
	if len(os.Args) < 2 {
		fmt.Fprintln(os.Stderr, "usage: vsym run|check ...")
		os.Exit(2)
	}
	switch os.Args[1] {
	case "run":
		cmdRun(os.Args[2:])
	case "check":
		cmdCheck(os.Args[2:])
	default:
		fmt.Fprintln(os.Stderr, "unknown command", os.Args[1])
		os.Exit(2)
	}
}

// cmdRun: developer entry point: run named harnesses and print statistics.
func cmdRun(args []string) {
	fs := flag.NewFlagSet("run", flag.ExitOnError)
	repo := fs.String("repo", "/repo", "repository")
	hdir := fs.String("harness", "/verif/harness", "harness directory")
	names := fs.String("h", "", "comma-separated harness names")
	tier := fs.String("tier", "quick", "tier")
	workers := fs.Int("j", runtime.NumCPU(), "workers")
	arith := fs.Bool("arith", false, "arith back end")
	verbose := fs.Bool("v", false, "verbose (crash on engine bugs)")
	budget := fs.Int64("budget", 0, "step budget")
	dump := fs.String("dump", "", "write full stats JSON here")
	first := fs.Bool("first", false, "stop a harness at its first violation")
	fs.Parse(args)
	t0 := time.Now()
	ld, err := loadRepo(*repo, *hdir)
	if err != nil {
		fmt.Fprintln(os.Stderr, "LOAD FAILED:", err)
		os.Exit(2)
	}
	fmt.Fprintf(os.Stderr, "loaded in %.1fs\n", time.Since(t0).Seconds())
	cfg := defaultConfig(*tier)
	cfg.Verbose = *verbose
	cfg.StopOnFirst = *first
	if *budget > 0 {
		cfg.StepBudget = *budget
	}
	var specs []HarnessSpec
	for _, n := range strings.Split(*names, ",") {
		specs = append(specs, HarnessSpec{Name: n, Arith: *arith})
	}
	co, err := NewCoordinator(ld, cfg, specs, *workers)
	if err != nil {
		fmt.Fprintln(os.Stderr, err)
		os.Exit(2)
	}
	co.Run()
	for _, st := range co.stats {
		printStats(st)
	}
	for _, f := range co.fatal {
		fmt.Println("FATAL:", f)
	}
	if *dump != "" {
		b, _ := json.MarshalIndent(co.stats, "", " ")
		os.WriteFile(*dump, b, 0o644)
	}
	fmt.Fprintf(os.Stderr, "total %.1fs\n", time.Since(t0).Seconds())
}

func printStats(st *HarnessStats) {
	fmt.Printf("== %s: paths=%d decisions=%d infeasible=%d obligations=%d discharged=%d bymodel=%d unknown=%d steps=%d maxdepth=%d ifconv=%d specabort=%d wall=%.1fs\n",
		st.Name, st.Paths, st.Decisions, st.Infeasible, st.Obligations, st.Discharged, st.ByModel, st.UnknownObl, st.Steps, st.MaxDepth, st.IfConverted, st.SpecAborts, st.Wall.Seconds())
	for _, k := range sortedKeys(st.Reach) {
		fmt.Printf("   reach %-40s %d\n", k, st.Reach[k])
	}
	for _, k := range sortedKeys(st.Outside) {
		fmt.Printf("   outside %-40s %d\n", k, st.Outside[k])
	}
	for _, k := range sortedKeys(st.Unsupported) {
		fmt.Printf("   UNSUPPORTED %d× %s\n", st.Unsupported[k], k)
	}
	if len(st.Sites) > 0 {
		type kv struct {
			k string
			v int
		}
		var l []kv
		for k, v := range st.Sites {
			l = append(l, kv{k, v})
		}
		sort.Slice(l, func(i, j int) bool { return l[i].v > l[j].v })
		for i, x := range l {
			if i >= 25 {
				break
			}
			fmt.Printf("   infeasible-site %7d  %s\n", x.v, x.k)
		}
	}
	seen := map[string]int{}
	for _, v := range st.Violations {
		key := v.Kind + "|" + v.Label + "|" + v.Detail
		seen[key]++
		if seen[key] == 1 {
			fmt.Printf("   VIOLATION %s %q %s named=%v\n", v.Kind, v.Label, v.Detail, v.Named)
		}
	}
	for k, n := range seen {
		if n > 1 {
			fmt.Printf("   (%d× %s)\n", n, k)
		}
	}
}
