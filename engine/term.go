package main

import (
	"fmt"
	"math/bits"
	"strings"
)

// Term layer: hash-consed DAG of bit-vector / boolean terms.
// Width 0 means sort Bool; otherwise (_ BitVec W) with W in 1..64.

type Op uint8

const (
	OpConst Op = iota
	OpVar
	OpAdd
	OpSub
	OpMul
	OpUDiv
	OpURem
	OpSDiv
	OpSRem
	OpAnd
	OpOr
	OpXor
	OpShl
	OpLShr
	OpAShr
	OpBVNot
	OpNeg
	OpExtract // A=hi, B=lo stored in Val (hi<<8|lo)
	OpZExt    // to width W
	OpSExt
	OpConcat
	OpEq  // bool result, bv or bool args
	OpULt // bool
	OpULe
	OpSLt
	OpSLe
	OpNot // bool
	OpBAnd
	OpBOr
	OpIte // cond, a, b (bv or bool)
)

var opNames = [...]string{
	OpConst: "const", OpVar: "var", OpAdd: "bvadd", OpSub: "bvsub", OpMul: "bvmul",
	OpUDiv: "bvudiv", OpURem: "bvurem", OpSDiv: "bvsdiv", OpSRem: "bvsrem",
	OpAnd: "bvand", OpOr: "bvor", OpXor: "bvxor", OpShl: "bvshl", OpLShr: "bvlshr", OpAShr: "bvashr",
	OpBVNot: "bvnot", OpNeg: "bvneg", OpExtract: "extract", OpZExt: "zero_extend", OpSExt: "sign_extend",
	OpConcat: "concat", OpEq: "=", OpULt: "bvult", OpULe: "bvule", OpSLt: "bvslt", OpSLe: "bvsle",
	OpNot: "not", OpBAnd: "and", OpBOr: "or", OpIte: "ite",
}

type Term struct {
	Op   Op
	W    uint8 // 0 = Bool
	Val  uint64
	A    [3]*Term
	ID   int32
	Name string // for OpVar
}

type termKey struct {
	op      Op
	w       uint8
	val     uint64
	a, b, c int32
	name    string
}

// TermStore interns terms. One per worker (no locking).
type TermStore struct {
	tab    map[termKey]*Term
	nextID int32
	small  [65][]*Term // cached small constants per width
	Vars   []*Term
	True   *Term
	False  *Term
}

func NewTermStore() *TermStore {
	ts := &TermStore{tab: make(map[termKey]*Term, 1<<16)}
	ts.False = ts.mk(OpConst, 0, 0, nil, nil, nil, "")
	ts.True = ts.mk(OpConst, 0, 1, nil, nil, nil, "")
	return ts
}

func mask(w uint8) uint64 {
	if w >= 64 {
		return ^uint64(0)
	}
	if w == 0 {
		return 1
	}
	return (uint64(1) << w) - 1
}

func (ts *TermStore) mk(op Op, w uint8, val uint64, a, b, c *Term, name string) *Term {
	k := termKey{op: op, w: w, val: val, name: name, a: -1, b: -1, c: -1}
	if a != nil {
		k.a = a.ID
	}
	if b != nil {
		k.b = b.ID
	}
	if c != nil {
		k.c = c.ID
	}
	if t, ok := ts.tab[k]; ok {
		return t
	}
	t := &Term{Op: op, W: w, Val: val, A: [3]*Term{a, b, c}, ID: ts.nextID, Name: name}
	ts.nextID++
	ts.tab[k] = t
	return t
}

func (ts *TermStore) Const(w uint8, v uint64) *Term {
	v &= mask(w)
	if w == 0 {
		if v != 0 {
			return ts.True
		}
		return ts.False
	}
	if v < 512 {
		c := ts.small[w]
		if c == nil {
			c = make([]*Term, 512)
			ts.small[w] = c
		}
		if c[v] == nil {
			c[v] = ts.mk(OpConst, w, v, nil, nil, nil, "")
		}
		return c[v]
	}
	return ts.mk(OpConst, w, v, nil, nil, nil, "")
}

func (ts *TermStore) Bool(b bool) *Term {
	if b {
		return ts.True
	}
	return ts.False
}

func (ts *TermStore) Var(w uint8, name string) *Term {
	k := termKey{op: OpVar, w: w, name: name, a: -1, b: -1, c: -1}
	if t, ok := ts.tab[k]; ok {
		return t
	}
	t := ts.mk(OpVar, w, 0, nil, nil, nil, name)
	ts.Vars = append(ts.Vars, t)
	return t
}

func (t *Term) IsConst() bool { return t.Op == OpConst }
func (t *Term) IsTrue() bool  { return t.Op == OpConst && t.W == 0 && t.Val == 1 }
func (t *Term) IsFalse() bool { return t.Op == OpConst && t.W == 0 && t.Val == 0 }

func sext64(v uint64, w uint8) int64 {
	if w >= 64 {
		return int64(v)
	}
	sh := 64 - uint(w)
	return int64(v<<sh) >> sh
}

// evalOp computes a bv/bool operation on constants.
func evalOp(op Op, w uint8, aw uint8, a, b, c uint64, val uint64) uint64 {
	m := mask(w)
	switch op {
	case OpAdd:
		return (a + b) & m
	case OpSub:
		return (a - b) & m
	case OpMul:
		return (a * b) & m
	case OpUDiv:
		if b == 0 {
			return m
		}
		return (a / b) & m
	case OpURem:
		if b == 0 {
			return a
		}
		return (a % b) & m
	case OpSDiv:
		sa, sb := sext64(a, w), sext64(b, w)
		if sb == 0 {
			if sa >= 0 {
				return m
			}
			return 1
		}
		if sb == -1 {
			return uint64(-sa) & m
		}
		return uint64(sa/sb) & m
	case OpSRem:
		sa, sb := sext64(a, w), sext64(b, w)
		if sb == 0 {
			return a
		}
		if sb == -1 {
			return 0
		}
		return uint64(sa%sb) & m
	case OpAnd:
		return a & b
	case OpOr:
		return a | b
	case OpXor:
		return (a ^ b) & m
	case OpShl:
		if b >= uint64(w) {
			return 0
		}
		return (a << b) & m
	case OpLShr:
		if b >= uint64(w) {
			return 0
		}
		return a >> b
	case OpAShr:
		sa := sext64(a, w)
		if b >= uint64(w) {
			if sa < 0 {
				return m
			}
			return 0
		}
		return uint64(sa>>b) & m
	case OpBVNot:
		return ^a & m
	case OpNeg:
		return (-a) & m
	case OpExtract:
		hi, lo := uint8(val>>8), uint8(val)
		return (a >> lo) & mask(hi-lo+1)
	case OpZExt:
		return a
	case OpSExt:
		return uint64(sext64(a, aw)) & m
	case OpConcat:
		// a is high part; b low part with width = w - aw
		return ((a << (w - aw)) | b) & m
	case OpEq:
		if a == b {
			return 1
		}
		return 0
	case OpULt:
		if a < b {
			return 1
		}
		return 0
	case OpULe:
		if a <= b {
			return 1
		}
		return 0
	case OpSLt:
		if sext64(a, aw) < sext64(b, aw) {
			return 1
		}
		return 0
	case OpSLe:
		if sext64(a, aw) <= sext64(b, aw) {
			return 1
		}
		return 0
	case OpNot:
		return a ^ 1
	case OpBAnd:
		return a & b
	case OpBOr:
		return a | b
	case OpIte:
		if a != 0 {
			return b
		}
		return c
	}
	panic("evalOp: bad op")
}

func (ts *TermStore) Bin(op Op, a, b *Term) *Term {
	if a.W != b.W {
		panic(fmt.Sprintf("Bin %s: width mismatch %d vs %d", opNames[op], a.W, b.W))
	}
	w := a.W
	if a.IsConst() && b.IsConst() {
		return ts.Const(w, evalOp(op, w, w, a.Val, b.Val, 0, 0))
	}
	switch op {
	case OpAdd:
		if a.IsConst() && a.Val == 0 {
			return b
		}
		if b.IsConst() && b.Val == 0 {
			return a
		}
		// (x + c1) + c2
		if b.IsConst() && a.Op == OpAdd && a.A[1].IsConst() {
			return ts.Bin(OpAdd, a.A[0], ts.Const(w, a.A[1].Val+b.Val))
		}
		if a.IsConst() {
			a, b = b, a
		}
	case OpSub:
		if b.IsConst() && b.Val == 0 {
			return a
		}
		if a == b {
			return ts.Const(w, 0)
		}
		if b.IsConst() {
			return ts.Bin(OpAdd, a, ts.Const(w, -b.Val))
		}
	case OpMul:
		if a.IsConst() {
			a, b = b, a
		}
		if b.IsConst() {
			if b.Val == 0 {
				return b
			}
			if b.Val == 1 {
				return a
			}
		}
	case OpAnd:
		if a.IsConst() {
			a, b = b, a
		}
		if b.IsConst() {
			if b.Val == 0 {
				return b
			}
			if b.Val == mask(w) {
				return a
			}
		}
		if a == b {
			return a
		}
	case OpOr:
		if a.IsConst() {
			a, b = b, a
		}
		if b.IsConst() {
			if b.Val == 0 {
				return a
			}
			if b.Val == mask(w) {
				return b
			}
		}
		if a == b {
			return a
		}
	case OpXor:
		if a.IsConst() {
			a, b = b, a
		}
		if b.IsConst() && b.Val == 0 {
			return a
		}
		if a == b {
			return ts.Const(w, 0)
		}
	case OpShl, OpLShr, OpAShr:
		if b.IsConst() && b.Val == 0 {
			return a
		}
		if a.IsConst() && a.Val == 0 {
			return a
		}
		if b.IsConst() && b.Val >= uint64(w) && op != OpAShr {
			return ts.Const(w, 0)
		}
	case OpUDiv, OpSDiv:
		if b.IsConst() && b.Val == 1 {
			return a
		}
	}
	return ts.mk(op, w, 0, a, b, nil, "")
}

func (ts *TermStore) Un(op Op, a *Term) *Term {
	if a.IsConst() {
		return ts.Const(a.W, evalOp(op, a.W, a.W, a.Val, 0, 0, 0))
	}
	if a.Op == op && (op == OpBVNot || op == OpNeg) {
		return a.A[0]
	}
	return ts.mk(op, a.W, 0, a, nil, nil, "")
}

func (ts *TermStore) Extract(a *Term, hi, lo uint8) *Term {
	w := hi - lo + 1
	if lo == 0 && w == a.W {
		return a
	}
	val := uint64(hi)<<8 | uint64(lo)
	if a.IsConst() {
		return ts.Const(w, evalOp(OpExtract, w, a.W, a.Val, 0, 0, val))
	}
	switch a.Op {
	case OpZExt:
		in := a.A[0]
		if hi < in.W {
			return ts.Extract(in, hi, lo)
		}
		if lo >= in.W {
			return ts.Const(w, 0)
		}
		if lo == 0 {
			return ts.ZExt(in, w)
		}
	case OpSExt:
		in := a.A[0]
		if hi < in.W {
			return ts.Extract(in, hi, lo)
		}
	case OpConcat:
		hiT, loT := a.A[0], a.A[1]
		if hi < loT.W {
			return ts.Extract(loT, hi, lo)
		}
		if lo >= loT.W {
			return ts.Extract(hiT, hi-loT.W, lo-loT.W)
		}
	case OpExtract:
		ilo := uint8(a.Val)
		return ts.Extract(a.A[0], hi+ilo, lo+ilo)
	case OpAnd, OpOr, OpXor:
		if a.A[1].IsConst() {
			return ts.Bin(a.Op, ts.Extract(a.A[0], hi, lo), ts.Extract(a.A[1], hi, lo))
		}
	case OpIte:
		if a.A[1].IsConst() && a.A[2].IsConst() {
			return ts.Ite(a.A[0], ts.Extract(a.A[1], hi, lo), ts.Extract(a.A[2], hi, lo))
		}
	}
	return ts.mk(OpExtract, w, val, a, nil, nil, "")
}

func (ts *TermStore) ZExt(a *Term, w uint8) *Term {
	if w == a.W {
		return a
	}
	if w < a.W {
		return ts.Extract(a, w-1, 0)
	}
	if a.IsConst() {
		return ts.Const(w, a.Val)
	}
	if a.Op == OpZExt {
		return ts.ZExt(a.A[0], w)
	}
	if a.Op == OpIte && a.A[1].IsConst() && a.A[2].IsConst() {
		return ts.Ite(a.A[0], ts.ZExt(a.A[1], w), ts.ZExt(a.A[2], w))
	}
	return ts.mk(OpZExt, w, 0, a, nil, nil, "")
}

func (ts *TermStore) SExt(a *Term, w uint8) *Term {
	if w == a.W {
		return a
	}
	if w < a.W {
		return ts.Extract(a, w-1, 0)
	}
	if a.IsConst() {
		return ts.Const(w, uint64(sext64(a.Val, a.W)))
	}
	if a.Op == OpZExt {
		// zero-extended value has a clear sign bit
		return ts.ZExt(a.A[0], w)
	}
	if a.Op == OpSExt {
		return ts.SExt(a.A[0], w)
	}
	return ts.mk(OpSExt, w, 0, a, nil, nil, "")
}

// Concat: a is the high part.
func (ts *TermStore) Concat(a, b *Term) *Term {
	w := a.W + b.W
	if a.IsConst() && b.IsConst() {
		return ts.Const(w, a.Val<<b.W|b.Val)
	}
	if a.IsConst() && a.Val == 0 {
		return ts.ZExt(b, w)
	}
	return ts.mk(OpConcat, w, 0, a, b, nil, "")
}

// umax returns a cheap upper bound on the unsigned value of t.
func umax(t *Term) uint64 {
	switch t.Op {
	case OpConst:
		return t.Val
	case OpZExt:
		return umax(t.A[0])
	case OpIte:
		a, b := umax(t.A[1]), umax(t.A[2])
		if a > b {
			return a
		}
		return b
	case OpAnd:
		a, b := umax(t.A[0]), umax(t.A[1])
		if a < b {
			return a
		}
		return b
	case OpLShr:
		if t.A[1].IsConst() && t.A[1].Val < 64 {
			return umax(t.A[0]) >> t.A[1].Val
		}
	case OpURem:
		if t.A[1].IsConst() && t.A[1].Val > 0 {
			return t.A[1].Val - 1
		}
	case OpAdd:
		a, b := umax(t.A[0]), umax(t.A[1])
		s, c := bits.Add64(a, b, 0)
		if c == 0 && s <= mask(t.W) {
			return s
		}
	}
	return mask(t.W)
}

func (ts *TermStore) Cmp(op Op, a, b *Term) *Term {
	if a.W != b.W {
		panic(fmt.Sprintf("Cmp %s: width mismatch %d vs %d", opNames[op], a.W, b.W))
	}
	if a.IsConst() && b.IsConst() {
		return ts.Bool(evalOp(op, 0, a.W, a.Val, b.Val, 0, 0) != 0)
	}
	switch op {
	case OpEq:
		if a == b {
			return ts.True
		}
		if a.W == 0 {
			// boolean equality
			if a.IsConst() {
				a, b = b, a
			}
			if b.IsConst() {
				if b.Val == 1 {
					return a
				}
				return ts.Not(a)
			}
		}
		if a.IsConst() {
			a, b = b, a
		}
		if b.IsConst() {
			if b.Val > umax(a) {
				return ts.False
			}
			switch a.Op {
			case OpZExt:
				in := a.A[0]
				if b.Val > mask(in.W) {
					return ts.False
				}
				return ts.Cmp(OpEq, in, ts.Const(in.W, b.Val))
			case OpIte:
				// eq(ite(c, k1, k2), k)
				if a.A[1].IsConst() && a.A[2].IsConst() {
					e1 := a.A[1].Val == b.Val
					e2 := a.A[2].Val == b.Val
					switch {
					case e1 && e2:
						return ts.True
					case e1:
						return a.A[0]
					case e2:
						return ts.Not(a.A[0])
					default:
						return ts.False
					}
				}
			case OpAdd:
				if a.A[1].IsConst() {
					return ts.Cmp(OpEq, a.A[0], ts.Const(a.W, b.Val-a.A[1].Val))
				}
			}
		}
		if a.ID > b.ID && !b.IsConst() {
			a, b = b, a
		}
	case OpULt:
		if a == b {
			return ts.False
		}
		if b.IsConst() && b.Val == 0 {
			return ts.False
		}
		if b.IsConst() && umax(a) < b.Val {
			return ts.True
		}
		if a.IsConst() && a.Val == mask(a.W) {
			return ts.False
		}
		if a.IsConst() && a.Val >= umax(b) {
			return ts.False
		}
		if a.Op == OpZExt && b.IsConst() {
			in := a.A[0]
			if b.Val > mask(in.W) {
				return ts.True
			}
			return ts.Cmp(OpULt, in, ts.Const(in.W, b.Val))
		}
		if b.Op == OpZExt && a.IsConst() {
			in := b.A[0]
			if a.Val >= mask(in.W) {
				return ts.False
			}
			return ts.Cmp(OpULt, ts.Const(in.W, a.Val), in)
		}
	case OpULe:
		if a == b {
			return ts.True
		}
		if a.IsConst() && a.Val == 0 {
			return ts.True
		}
		if b.IsConst() && umax(a) <= b.Val {
			return ts.True
		}
		if a.IsConst() && a.Val > umax(b) {
			return ts.False
		}
		if a.Op == OpZExt && b.IsConst() {
			in := a.A[0]
			if b.Val >= mask(in.W) {
				return ts.True
			}
			return ts.Cmp(OpULe, in, ts.Const(in.W, b.Val))
		}
		if b.Op == OpZExt && a.IsConst() {
			in := b.A[0]
			if a.Val > mask(in.W) {
				return ts.False
			}
			return ts.Cmp(OpULe, ts.Const(in.W, a.Val), in)
		}
	case OpSLt, OpSLe:
		if a == b {
			return ts.Bool(op == OpSLe)
		}
		// If both sides are provably non-negative use unsigned comparison (enables simplification).
		half := mask(a.W) >> 1
		if umax(a) <= half && umax(b) <= half {
			if op == OpSLt {
				return ts.Cmp(OpULt, a, b)
			}
			return ts.Cmp(OpULe, a, b)
		}
	}
	return ts.mk(op, 0, 0, a, b, nil, "")
}

func (ts *TermStore) Eq(a, b *Term) *Term { return ts.Cmp(OpEq, a, b) }

func (ts *TermStore) Not(a *Term) *Term {
	if a.W != 0 {
		panic("Not on non-bool")
	}
	if a.IsConst() {
		return ts.Bool(a.Val == 0)
	}
	if a.Op == OpNot {
		return a.A[0]
	}
	return ts.mk(OpNot, 0, 0, a, nil, nil, "")
}

func (ts *TermStore) And(a, b *Term) *Term {
	if a.W != 0 || b.W != 0 {
		panic("And on non-bool")
	}
	if a.IsConst() {
		if a.Val == 0 {
			return a
		}
		return b
	}
	if b.IsConst() {
		if b.Val == 0 {
			return b
		}
		return a
	}
	if a == b {
		return a
	}
	if (a.Op == OpNot && a.A[0] == b) || (b.Op == OpNot && b.A[0] == a) {
		return ts.False
	}
	if a.ID > b.ID {
		a, b = b, a
	}
	return ts.mk(OpBAnd, 0, 0, a, b, nil, "")
}

func (ts *TermStore) Or(a, b *Term) *Term {
	if a.W != 0 || b.W != 0 {
		panic("Or on non-bool")
	}
	if a.IsConst() {
		if a.Val == 1 {
			return a
		}
		return b
	}
	if b.IsConst() {
		if b.Val == 1 {
			return b
		}
		return a
	}
	if a == b {
		return a
	}
	if (a.Op == OpNot && a.A[0] == b) || (b.Op == OpNot && b.A[0] == a) {
		return ts.True
	}
	if a.ID > b.ID {
		a, b = b, a
	}
	return ts.mk(OpBOr, 0, 0, a, b, nil, "")
}

func (ts *TermStore) Ite(c, a, b *Term) *Term {
	if c.W != 0 {
		panic("Ite cond non-bool")
	}
	if a.W != b.W {
		panic("Ite width mismatch")
	}
	if c.IsConst() {
		if c.Val == 1 {
			return a
		}
		return b
	}
	if a == b {
		return a
	}
	if a.W == 0 {
		if a.IsConst() && b.IsConst() {
			if a.Val == 1 {
				return c
			}
			return ts.Not(c)
		}
		if a.IsConst() {
			if a.Val == 1 {
				return ts.Or(c, b)
			}
			return ts.And(ts.Not(c), b)
		}
		if b.IsConst() {
			if b.Val == 1 {
				return ts.Or(ts.Not(c), a)
			}
			return ts.And(c, a)
		}
	}
	if c.Op == OpNot {
		return ts.Ite(c.A[0], b, a)
	}
	return ts.mk(OpIte, a.W, 0, c, a, b, "")
}

// Model: assignment of variables (by term ID) to values; missing = 0.
type Model struct {
	vals  map[int32]uint64
	cache map[int32]uint64
}

func NewModel() *Model {
	return &Model{vals: map[int32]uint64{}, cache: map[int32]uint64{}}
}

func (m *Model) Eval(t *Term) uint64 {
	switch t.Op {
	case OpConst:
		return t.Val
	case OpVar:
		return m.vals[t.ID] & mask(t.W)
	}
	if v, ok := m.cache[t.ID]; ok {
		return v
	}
	var v uint64
	switch t.Op {
	case OpIte:
		if m.Eval(t.A[0]) != 0 {
			v = m.Eval(t.A[1])
		} else {
			v = m.Eval(t.A[2])
		}
	case OpBAnd:
		if m.Eval(t.A[0]) == 0 {
			v = 0
		} else {
			v = m.Eval(t.A[1])
		}
	case OpBOr:
		if m.Eval(t.A[0]) != 0 {
			v = 1
		} else {
			v = m.Eval(t.A[1])
		}
	default:
		var a, b uint64
		var aw uint8
		if t.A[0] != nil {
			a = m.Eval(t.A[0])
			aw = t.A[0].W
		}
		if t.A[1] != nil {
			b = m.Eval(t.A[1])
		}
		v = evalOp(t.Op, t.W, aw, a, b, 0, t.Val)
	}
	m.cache[t.ID] = v
	return v
}

func (m *Model) Truth(t *Term) bool { return m.Eval(t) != 0 }

// SMT-LIB rendering of a single node, referring to children by name.
func termRef(t *Term) string {
	switch t.Op {
	case OpConst:
		if t.W == 0 {
			if t.Val != 0 {
				return "true"
			}
			return "false"
		}
		return fmt.Sprintf("(_ bv%d %d)", t.Val, t.W)
	case OpVar:
		return "|" + t.Name + "|"
	}
	return fmt.Sprintf("t%d", t.ID)
}

func sortOf(t *Term) string {
	if t.W == 0 {
		return "Bool"
	}
	return fmt.Sprintf("(_ BitVec %d)", t.W)
}

func termBody(t *Term) string {
	var sb strings.Builder
	switch t.Op {
	case OpExtract:
		fmt.Fprintf(&sb, "((_ extract %d %d) %s)", uint8(t.Val>>8), uint8(t.Val), termRef(t.A[0]))
	case OpZExt:
		fmt.Fprintf(&sb, "((_ zero_extend %d) %s)", t.W-t.A[0].W, termRef(t.A[0]))
	case OpSExt:
		fmt.Fprintf(&sb, "((_ sign_extend %d) %s)", t.W-t.A[0].W, termRef(t.A[0]))
	default:
		sb.WriteByte('(')
		sb.WriteString(opNames[t.Op])
		for _, a := range t.A {
			if a != nil {
				sb.WriteByte(' ')
				sb.WriteString(termRef(a))
			}
		}
		sb.WriteByte(')')
	}
	return sb.String()
}

// String renders a term fully (for debugging / samples), bounded in size.
func (t *Term) String() string {
	var sb strings.Builder
	t.write(&sb, 0)
	return sb.String()
}

func (t *Term) write(sb *strings.Builder, depth int) {
	if sb.Len() > 400 || depth > 12 {
		sb.WriteString("…")
		return
	}
	switch t.Op {
	case OpConst, OpVar:
		sb.WriteString(termRef(t))
		return
	case OpExtract:
		fmt.Fprintf(sb, "((_ extract %d %d) ", uint8(t.Val>>8), uint8(t.Val))
		t.A[0].write(sb, depth+1)
		sb.WriteByte(')')
		return
	case OpZExt, OpSExt:
		fmt.Fprintf(sb, "((_ %s %d) ", opNames[t.Op], t.W-t.A[0].W)
		t.A[0].write(sb, depth+1)
		sb.WriteByte(')')
		return
	}
	sb.WriteByte('(')
	sb.WriteString(opNames[t.Op])
	for _, a := range t.A {
		if a != nil {
			sb.WriteByte(' ')
			a.write(sb, depth+1)
		}
	}
	sb.WriteByte(')')
}
