package main

import (
	"fmt"

	"golang.org/x/tools/go/ssa"
)

// Globals are created lazily. The first access to a global of package P runs P's
// initialiser (tolerantly: calls the engine cannot run yield opaque values) with
// journaling disabled, so the initialised image persists across paths.

func (e *Engine) globalAddr(g *ssa.Global) *value {
	if a, ok := e.globals[g]; ok {
		return a
	}
	pkg := g.Pkg
	if pkg != nil && !e.initDone[pkg] {
		e.runInit(pkg)
		if a, ok := e.globals[g]; ok {
			return a
		}
	}
	return e.allocGlobal(g)
}

func (e *Engine) allocGlobal(g *ssa.Global) *value {
	cell := new(value)
	*cell = e.zero(deref(g.Type()))
	e.globals[g] = cell
	return cell
}

// packages whose init is never run (globals stay zero / opaque on use)
var skipInitPkgs = map[string]bool{
	"runtime": true, "os": true, "syscall": true, "reflect": true, "internal/poll": true,
	"internal/godebug": true, "testing": true, "crypto/tls": true, "net": true,
	"internal/cpu": true, "unsafe": true,
}

func (e *Engine) runInit(pkg *ssa.Package) {
	e.initDone[pkg] = true
	for _, m := range pkg.Members {
		if g, ok := m.(*ssa.Global); ok {
			if _, have := e.globals[g]; !have {
				e.allocGlobal(g)
			}
		}
	}
	if skipInitPkgs[pkg.Pkg.Path()] {
		return
	}
	initFn := pkg.Func("init")
	if initFn == nil || initFn.Blocks == nil {
		return
	}
	// save path state
	savedJ := e.journalOn
	savedCur := e.cur
	savedDepth := e.depth
	savedSteps := e.steps
	savedBudget := e.stepBudget
	savedSpec, savedSpecLimit := e.specDepth, e.specLimit
	e.specDepth = 0
	e.journalOn = false
	e.inInit++
	e.stepBudget = 1 << 40
	defer func() {
		e.journalOn = savedJ
		e.cur = savedCur
		e.depth = savedDepth
		e.steps = savedSteps
		e.stepBudget = savedBudget
		e.specDepth, e.specLimit = savedSpec, savedSpecLimit
		e.inInit--
	}()
	e.runInitBody(initFn)
}

// runInitBody walks init's blocks; each instruction is executed tolerantly.
func (e *Engine) runInitBody(fn *ssa.Function) {
	fi := e.infoFor(fn)
	fr := &frame{e: e, fn: fn, info: fi, env: make([]value, fi.n)}
	for _, l := range fn.Locals {
		cell := new(value)
		*cell = e.zero(deref(l.Type()))
		fr.set(l, cell)
	}
	e.cur = fr
	fr.block = fn.Blocks[0]
	guard := 0
	for fr.block != nil {
		guard++
		if guard > 100000 {
			return
		}
		nonPhis := e.executePhis(fr)
		var next *ssa.BasicBlock
		for _, instr := range nonPhis {
			fr.curInstr = instr
			switch in := instr.(type) {
			case *ssa.If:
				// init guard: "if init$guard goto done else goto body" -> always run the body
				c := fr.get(in.Cond)
				ct, ok := c.(*Term)
				succ := 1
				if ok && ct.IsConst() && ct.Val != 0 {
					succ = 0
				}
				if !ok || !ct.IsConst() {
					succ = 1
				}
				next = fr.block.Succs[succ]
			case *ssa.Jump:
				next = fr.block.Succs[0]
			case *ssa.Return:
				return
			case *ssa.Call:
				// skip other packages' init calls (run lazily on demand)
				if callee := in.Call.StaticCallee(); callee != nil && callee.Name() == "init" && callee.Pkg != fn.Pkg && callee.Signature.Recv() == nil && callee.Parent() == nil {
					continue
				}
				e.tolerant(fr, instr)
			default:
				e.tolerant(fr, instr)
			}
			e.cur = fr
		}
		fr.prevBlock, fr.block = fr.block, next
	}
}

// tolerant executes one init instruction; failures yield opaque results.
func (e *Engine) tolerant(fr *frame, instr ssa.Instruction) {
	defer func() {
		if r := recover(); r != nil {
			why := ""
			switch r := r.(type) {
			case pathEnd:
				why = r.reason
			case targetPanic:
				why = "panic during init: " + e.panicText(r)
			default:
				why = fmt.Sprintf("engine panic during init: %v", r)
			}
			if v, ok := instr.(ssa.Value); ok {
				fr.set(v, opaque{why})
			}
			e.cur = fr
			e.depth = 0
		}
	}()
	// propagate opaque operands
	if st, ok := instr.(*ssa.Store); ok {
		if o, isO := fr.get(st.Val).(opaque); isO {
			if addr, ok2 := fr.get(st.Addr).(*value); ok2 && addr != nil {
				*addr = o
			}
			return
		}
	}
	e.visitInstr(fr, instr)
}
