package main

import (
	"golang.org/x/tools/go/ssa"
)

// Speculative if-conversion: at an If on a symbolic condition whose region up to the
// immediate post-dominator is acyclic and free of side effects, evaluate the region once
// with guards and turn the join's phis into ite terms. Any instruction that would trap,
// fork or write memory abandons the attempt (specAbort) and the branch is forked as usual.

type specAbort struct{ why string }

type regionInfo struct {
	ok      bool
	join    *ssa.BasicBlock
	order   []*ssa.BasicBlock // topological order of region blocks (excluding head and join)
	returns bool              // the region has no join: every path ends in a Return (merged into one result)
}

type fnCFG struct {
	ipdom   []int // block index -> ipdom block index, -1 = exit
	regions map[*ssa.If]*regionInfo
}

func (e *Engine) cfgFor(fn *ssa.Function) *fnCFG {
	if c, ok := e.cfgs[fn]; ok {
		return c
	}
	c := &fnCFG{regions: map[*ssa.If]*regionInfo{}}
	n := len(fn.Blocks)
	words := (n + 1 + 63) / 64
	// pdom sets as bitsets; index n = virtual exit
	full := make([]uint64, words)
	for i := 0; i <= n; i++ {
		full[i/64] |= 1 << (uint(i) % 64)
	}
	pd := make([][]uint64, n+1)
	for i := 0; i <= n; i++ {
		pd[i] = make([]uint64, words)
		copy(pd[i], full)
	}
	for i := range pd[n] {
		pd[n][i] = 0
	}
	pd[n][n/64] |= 1 << (uint(n) % 64)
	changed := true
	tmp := make([]uint64, words)
	for changed {
		changed = false
		for bi := n - 1; bi >= 0; bi-- {
			b := fn.Blocks[bi]
			copy(tmp, full)
			if len(b.Succs) == 0 {
				for i := range tmp {
					tmp[i] &= pd[n][i]
				}
			}
			for _, s := range b.Succs {
				for i := range tmp {
					tmp[i] &= pd[s.Index][i]
				}
			}
			tmp[bi/64] |= 1 << (uint(bi) % 64)
			for i := range tmp {
				if tmp[i] != pd[bi][i] {
					changed = true
					pd[bi][i] = tmp[i]
				}
			}
		}
	}
	count := func(s []uint64) int {
		c := 0
		for _, w := range s {
			for ; w != 0; w &= w - 1 {
				c++
			}
		}
		return c
	}
	c.ipdom = make([]int, n)
	for bi := 0; bi < n; bi++ {
		c.ipdom[bi] = -1
		want := count(pd[bi]) - 1
		for d := 0; d < n; d++ {
			if d == bi || pd[bi][d/64]&(1<<(uint(d)%64)) == 0 {
				continue
			}
			if count(pd[d]) == want {
				c.ipdom[bi] = d
				break
			}
		}
	}
	e.cfgs[fn] = c
	return c
}

const maxRegionBlocks = 48

func (e *Engine) regionFor(fr *frame, in *ssa.If) *regionInfo {
	cfg := e.cfgFor(fr.fn)
	if r, ok := cfg.regions[in]; ok {
		return r
	}
	r := &regionInfo{}
	cfg.regions[in] = r
	head := in.Block()
	ji := cfg.ipdom[head.Index]
	var join *ssa.BasicBlock
	if ji < 0 {
		// no join block: acceptable if every path from here ends in a Return (and the function has no defers).
		// Not used by arithmetic harnesses: merging e.g. a unit-lookup switch into one ite makes the
		// products and quotients that follow non-linear, where forking keeps them linear per path.
		if e.noRetMerge {
			return r
		}
		r.returns = true
	} else {
		join = fr.fn.Blocks[ji]
	}
	// DFS from head's successors up to join; detect cycles; collect postorder
	state := map[*ssa.BasicBlock]int{} // 1 = on stack, 2 = done
	var post []*ssa.BasicBlock
	ok := true
	var dfs func(b *ssa.BasicBlock)
	dfs = func(b *ssa.BasicBlock) {
		if !ok || b == join {
			return
		}
		if b == head {
			ok = false
			return
		}
		switch state[b] {
		case 1:
			ok = false
			return
		case 2:
			return
		}
		state[b] = 1
		if len(state) > maxRegionBlocks {
			ok = false
			return
		}
		for _, in := range b.Instrs {
			switch in.(type) {
			case *ssa.Return:
				if !r.returns {
					ok = false
					return
				}
			case *ssa.Store, *ssa.MapUpdate, *ssa.Defer, *ssa.RunDefers, *ssa.Panic,
				*ssa.Go, *ssa.Send, *ssa.Select, *ssa.Range, *ssa.Next:
				ok = false
				return
			}
		}
		for _, s := range b.Succs {
			dfs(s)
		}
		state[b] = 2
		post = append(post, b)
	}
	for _, s := range head.Succs {
		dfs(s)
	}
	if !ok {
		r.returns = false
		return r
	}
	for i := len(post) - 1; i >= 0; i-- {
		r.order = append(r.order, post[i])
	}
	r.join = join
	r.ok = true
	return r
}

type edgeKey struct{ from, to int }

// tryIfConvert returns true if the region was evaluated and fr is positioned at the join.
func (e *Engine) tryIfConvert(fr *frame, in *ssa.If, cond *Term) (done bool) {
	if e.noIfConv {
		return false
	}
	reg := e.regionFor(fr, in)
	if !reg.ok {
		return false
	}
	head := fr.block
	savedDepth := e.depth
	savedSpecLimit := e.specLimit
	if e.specDepth == 0 {
		e.specLimit = e.steps + 4000
	}
	e.specDepth++
	defer func() {
		e.specDepth--
		e.specLimit = savedSpecLimit
		if r := recover(); r != nil {
			if _, isAbort := r.(specAbort); isAbort {
				if e.specDepth > 0 {
					panic(r) // abort the whole nest
				}
				e.cur = fr
				e.depth = savedDepth
				fr.block = head
				fr.curInstr = in
				e.stats.SpecAborts++
				done = false
				return
			}
			panic(r)
		}
	}()
	ts := e.ts
	edges := map[edgeKey]*Term{}
	addEdge := func(from, to *ssa.BasicBlock, g *Term) {
		k := edgeKey{from.Index, to.Index}
		if old, ok := edges[k]; ok {
			edges[k] = ts.Or(old, g)
		} else {
			edges[k] = g
		}
	}
	addEdge(head, head.Succs[0], cond)
	addEdge(head, head.Succs[1], ts.Not(cond))

	mergePhis := func(blk *ssa.BasicBlock) int {
		first := 0
		var temps []value
		var phis []*ssa.Phi
		for _, ins := range blk.Instrs {
			phi, ok := ins.(*ssa.Phi)
			if !ok {
				break
			}
			first++
			var acc value
			var accT *Term
			have := false
			for pi, p := range blk.Preds {
				g, ok := edges[edgeKey{p.Index, blk.Index}]
				if !ok || g.IsFalse() {
					continue
				}
				v := fr.get(phi.Edges[pi])
				if !have {
					acc = v
					accT, _ = v.(*Term)
					have = true
					continue
				}
				vt, isT := v.(*Term)
				if isT && accT != nil {
					accT = ts.Ite(g, vt, accT)
					acc = accT
					continue
				}
				if !sameValue(acc, v) {
					panic(specAbort{"non-scalar phi"})
				}
			}
			if !have {
				panic(specAbort{"phi without live edge"})
			}
			temps = append(temps, acc)
			phis = append(phis, phi)
		}
		for i, phi := range phis {
			fr.set(phi, temps[i])
		}
		return first
	}

	type retArm struct {
		g    *Term
		vals []value
	}
	var arms []retArm
	for _, blk := range reg.order {
		var g *Term = ts.False
		for _, p := range blk.Preds {
			if eg, ok := edges[edgeKey{p.Index, blk.Index}]; ok {
				g = ts.Or(g, eg)
			}
		}
		if g.IsFalse() {
			continue
		}
		first := mergePhis(blk)
		fr.block = blk
		for _, ins := range blk.Instrs[first:] {
			fr.curInstr = ins
			e.steps++
			if e.steps > e.specLimit {
				panic(specAbort{"speculation budget"})
			}
			switch ins := ins.(type) {
			case *ssa.If:
				c, ok := fr.get(ins.Cond).(*Term)
				if !ok {
					panic(specAbort{"non-term cond"})
				}
				addEdge(blk, blk.Succs[0], ts.And(g, c))
				addEdge(blk, blk.Succs[1], ts.And(g, ts.Not(c)))
			case *ssa.Jump:
				addEdge(blk, blk.Succs[0], g)
			case *ssa.Return:
				vals := make([]value, len(ins.Results))
				for i, rv := range ins.Results {
					vals[i] = fr.get(rv)
				}
				arms = append(arms, retArm{g, vals})
			default:
				e.visitInstr(fr, ins)
				e.cur = fr
			}
		}
	}
	if reg.returns {
		if len(arms) == 0 {
			panic(specAbort{"no return arm"})
		}
		n := len(arms[0].vals)
		merged := make([]value, n)
		for i := 0; i < n; i++ {
			acc := arms[0].vals[i]
			accT, _ := acc.(*Term)
			for _, a := range arms[1:] {
				vt, isT := a.vals[i].(*Term)
				if isT && accT != nil {
					accT = ts.Ite(a.g, vt, accT)
					acc = accT
					continue
				}
				if !sameValue(acc, a.vals[i]) {
					panic(specAbort{"non-scalar return"})
				}
			}
			merged[i] = acc
		}
		switch n {
		case 0:
			fr.result = nil
		case 1:
			fr.result = merged[0]
		default:
			fr.result = tuple(merged)
		}
		fr.block = nil
		e.stats.IfConverted++
		return true
	}
	mergePhis(reg.join)
	// position at join with phis already executed
	fr.prevBlock = head
	fr.block = reg.join
	fr.phisDone = true
	e.stats.IfConverted++
	return true
}

func sameValue(a, b value) bool {
	switch a := a.(type) {
	case *Term:
		bt, ok := b.(*Term)
		return ok && a == bt
	case *value:
		bp, ok := b.(*value)
		return ok && a == bp
	case str:
		bs, ok := b.(str)
		return ok && sameKey(a, bs)
	case iface:
		bi, ok := b.(iface)
		if !ok {
			return false
		}
		if a.t == nil || bi.t == nil {
			return a.t == nil && bi.t == nil
		}
		return false
	case *hmap:
		bm, ok := b.(*hmap)
		return ok && a == bm
	}
	return false
}
