package main

// Cheap path-condition knowledge used to avoid solver queries: exact truth values of
// conditions already assumed, and unsigned intervals (+ a few excluded points) for terms
// compared against constants. Everything here is a sound under-approximation of what the
// path condition implies: "unknown" falls back to the solver.

type rng struct {
	lo, hi uint64
	excl   []uint64
}

type knowledge struct {
	truth  map[int32]bool
	ranges map[int32]*rng
}

func newKnowledge() *knowledge {
	return &knowledge{truth: map[int32]bool{}, ranges: map[int32]*rng{}}
}

func (k *knowledge) rangeOf(t *Term) (lo, hi uint64, r *rng) {
	if t.IsConst() {
		return t.Val, t.Val, nil
	}
	if r, ok := k.ranges[t.ID]; ok {
		return r.lo, r.hi, r
	}
	return 0, umax(t), nil
}

func (k *knowledge) getRange(t *Term) *rng {
	r, ok := k.ranges[t.ID]
	if !ok {
		r = &rng{lo: 0, hi: umax(t)}
		k.ranges[t.ID] = r
	}
	return r
}

// constLeaves returns the possible values of an ite-tree whose leaves are all constants (nil if t is not
// such a tree or has more than limit leaves).
func constLeaves(t *Term, limit int) []uint64 {
	var out []uint64
	var walk func(t *Term) bool
	walk = func(t *Term) bool {
		switch t.Op {
		case OpConst:
			out = append(out, t.Val)
			return len(out) <= limit
		case OpIte:
			return walk(t.A[1]) && walk(t.A[2])
		case OpZExt:
			return walk(t.A[0])
		}
		return false
	}
	if t.Op != OpIte && !(t.Op == OpZExt && t.A[0].Op == OpIte) {
		return nil
	}
	if !walk(t) {
		return nil
	}
	return out
}

// decideBySet decides a comparison between a small-value-set term and a constant.
func decideBySet(c *Term) (bool, bool) {
	a, b := c.A[0], c.A[1]
	var vals []uint64
	var K uint64
	swapped := false
	switch {
	case b.IsConst():
		vals, K = constLeaves(a, 40), b.Val
	case a.IsConst():
		vals, K, swapped = constLeaves(b, 40), a.Val, true
	}
	if vals == nil {
		return false, false
	}
	all, none := true, true
	for _, v := range vals {
		var r bool
		x, y := v, K
		if swapped {
			x, y = K, v
		}
		switch c.Op {
		case OpULt:
			r = x < y
		case OpULe:
			r = x <= y
		case OpEq:
			r = x == y
		default:
			return false, false
		}
		all = all && r
		none = none && !r
	}
	if all {
		return true, true
	}
	if none {
		return true, false
	}
	return false, false
}

// decide returns (known, value).
func (k *knowledge) decide(c *Term) (bool, bool) {
	if c.IsConst() {
		return true, c.Val != 0
	}
	if v, ok := k.truth[c.ID]; ok {
		return true, v
	}
	if c.Op == OpULt || c.Op == OpULe || (c.Op == OpEq && c.A[0].W != 0) {
		if kn, v := decideBySet(c); kn {
			return true, v
		}
	}
	switch c.Op {
	case OpNot:
		kn, v := k.decide(c.A[0])
		return kn, !v
	case OpBAnd:
		k1, v1 := k.decide(c.A[0])
		k2, v2 := k.decide(c.A[1])
		if (k1 && !v1) || (k2 && !v2) {
			return true, false
		}
		if k1 && k2 {
			return true, true
		}
	case OpBOr:
		k1, v1 := k.decide(c.A[0])
		k2, v2 := k.decide(c.A[1])
		if (k1 && v1) || (k2 && v2) {
			return true, true
		}
		if k1 && k2 {
			return true, false
		}
	case OpULt:
		if kn, v := k.decideOffsetCmp(c); kn {
			return true, v
		}
		alo, ahi, _ := k.rangeOf(c.A[0])
		blo, bhi, _ := k.rangeOf(c.A[1])
		if ahi < blo {
			return true, true
		}
		if alo >= bhi {
			return true, false
		}
	case OpULe:
		if kn, v := k.decideOffsetCmp(c); kn {
			return true, v
		}
		alo, ahi, _ := k.rangeOf(c.A[0])
		blo, bhi, _ := k.rangeOf(c.A[1])
		if ahi <= blo {
			return true, true
		}
		if alo > bhi {
			return true, false
		}
	case OpEq:
		if c.A[0].W == 0 {
			return false, false
		}
		a, b := c.A[0], c.A[1]
		if a.IsConst() {
			a, b = b, a
		}
		if b.IsConst() {
			lo, hi, r := k.rangeOf(a)
			if b.Val < lo || b.Val > hi {
				return true, false
			}
			if lo == hi {
				return true, true
			}
			if r != nil {
				for _, x := range r.excl {
					if x == b.Val {
						return true, false
					}
				}
			}
		} else {
			alo, ahi, _ := k.rangeOf(a)
			blo, bhi, _ := k.rangeOf(b)
			if ahi < blo || bhi < alo {
				return true, false
			}
		}
	}
	return false, false
}

// learn records that c holds.
func (k *knowledge) learn(c *Term) {
	k.learnV(c, true)
}

func (k *knowledge) learnV(c *Term, v bool) {
	if c.IsConst() {
		return
	}
	k.truth[c.ID] = v
	switch c.Op {
	case OpNot:
		k.learnV(c.A[0], !v)
	case OpBAnd:
		if v {
			k.learnV(c.A[0], true)
			k.learnV(c.A[1], true)
		}
	case OpBOr:
		if !v {
			k.learnV(c.A[0], false)
			k.learnV(c.A[1], false)
		}
	case OpULt:
		a, b := c.A[0], c.A[1]
		if v {
			// a < b
			if b.IsConst() && !a.IsConst() && b.Val > 0 {
				k.setHi(a, b.Val-1)
			}
			if a.IsConst() && !b.IsConst() && a.Val < ^uint64(0) {
				k.setLo(b, a.Val+1)
			}
		} else {
			// a >= b
			if b.IsConst() && !a.IsConst() {
				k.setLo(a, b.Val)
			}
			if a.IsConst() && !b.IsConst() {
				k.setHi(b, a.Val)
			}
		}
	case OpULe:
		a, b := c.A[0], c.A[1]
		if v {
			if b.IsConst() && !a.IsConst() {
				k.setHi(a, b.Val)
			}
			if a.IsConst() && !b.IsConst() {
				k.setLo(b, a.Val)
			}
		} else {
			// a > b
			if b.IsConst() && !a.IsConst() && b.Val < ^uint64(0) {
				k.setLo(a, b.Val+1)
			}
			if a.IsConst() && !b.IsConst() && a.Val > 0 {
				k.setHi(b, a.Val-1)
			}
		}
	case OpEq:
		if c.A[0].W == 0 {
			return
		}
		a, b := c.A[0], c.A[1]
		if a.IsConst() {
			a, b = b, a
		}
		if !b.IsConst() || a.IsConst() {
			return
		}
		if v {
			k.setLo(a, b.Val)
			k.setHi(a, b.Val)
		} else {
			r := k.getRange(a)
			switch {
			case b.Val == r.lo && r.lo < r.hi:
				r.lo++
				k.tighten(r)
			case b.Val == r.hi && r.lo < r.hi:
				r.hi--
				k.tighten(r)
			default:
				if len(r.excl) < 16 {
					r.excl = append(r.excl, b.Val)
				}
			}
		}
	}
}

func (k *knowledge) tighten(r *rng) {
	changed := true
	for changed && r.lo < r.hi {
		changed = false
		for _, x := range r.excl {
			if x == r.lo && r.lo < r.hi {
				r.lo++
				changed = true
			}
			if x == r.hi && r.lo < r.hi {
				r.hi--
				changed = true
			}
		}
	}
}

func (k *knowledge) setLo(t *Term, v uint64) {
	r := k.getRange(t)
	if v > r.lo {
		r.lo = v
		k.tighten(r)
	}
}

func (k *knowledge) setHi(t *Term, v uint64) {
	r := k.getRange(t)
	if v < r.hi {
		r.hi = v
		k.tighten(r)
	}
}

// decideOffsetCmp handles (x + c) < K, (x + c) <= K, K < (x + c), K <= (x + c) (unsigned, modulo 2^w):
// the set of x satisfying it is one wrapped interval; if x's known range lies entirely inside or
// entirely outside, the comparison is decided.
func (k *knowledge) decideOffsetCmp(c *Term) (bool, bool) {
	a, b := c.A[0], c.A[1]
	var sum *Term
	var K uint64
	var lowSide bool // true: sum is on the smaller side (sum < K / sum <= K)
	switch {
	case a.Op == OpAdd && a.A[1].IsConst() && b.IsConst():
		sum, K, lowSide = a, b.Val, true
	case b.Op == OpAdd && b.A[1].IsConst() && a.IsConst():
		sum, K, lowSide = b, a.Val, false
	default:
		return false, false
	}
	x, off := sum.A[0], sum.A[1].Val
	w := sum.W
	if w == 0 || w > 63 {
		return false, false // keep the modular arithmetic inside uint64
	}
	M := uint64(1) << w
	// values v of the sum for which the comparison holds form [vlo, vhi]
	var vlo, vhi uint64
	switch {
	case lowSide && c.Op == OpULt: // sum < K
		if K == 0 {
			return true, false
		}
		vlo, vhi = 0, K-1
	case lowSide: // sum <= K
		vlo, vhi = 0, K
	case c.Op == OpULt: // K < sum
		if K >= M-1 {
			return true, false
		}
		vlo, vhi = K+1, M-1
	default: // K <= sum
		vlo, vhi = K, M-1
	}
	if vhi >= M {
		vhi = M - 1
	}
	// x = v - off (mod M): x ranges over the wrapped interval [xs, xs+len-1]
	length := vhi - vlo + 1
	if length >= M {
		return true, true
	}
	xs := (vlo + M - off%M) % M
	lo, hi, _ := k.rangeOf(x)
	if lo > hi || hi >= M {
		return false, false
	}
	inside := func(p uint64) bool { return (p+M-xs)%M < length }
	// the known range [lo,hi] is contiguous; it is inside the wrapped interval iff both ends are inside and
	// the interval is at least as long as the distance covered without leaving it
	if inside(lo) && inside(hi) && (hi-lo) <= ((hi+M-xs)%M) {
		return true, true
	}
	// entirely outside: the complement is the wrapped interval starting at xs+length with length M-length
	cs, clen := (xs+length)%M, M-length
	outside := func(p uint64) bool { return (p+M-cs)%M < clen }
	if outside(lo) && outside(hi) && (hi-lo) <= ((hi+M-cs)%M) {
		return true, false
	}
	return false, false
}
