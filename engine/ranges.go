package main

// Cheap path-condition knowledge used to avoid solver queries: exact truth values of
// conditions already assumed, and unsigned intervals (+ a few excluded points) for terms
// compared against constants. Everything here is a sound under-approximation of what the
// path condition implies: "unknown" falls back to the solver.

type rng struct {
	lo, hi uint64
	excl   []uint64
}

type knowledge struct {
	truth  map[int32]bool
	ranges map[int32]*rng
}

func newKnowledge() *knowledge {
	return &knowledge{truth: map[int32]bool{}, ranges: map[int32]*rng{}}
}

func (k *knowledge) rangeOf(t *Term) (lo, hi uint64, r *rng) {
	if t.IsConst() {
		return t.Val, t.Val, nil
	}
	if r, ok := k.ranges[t.ID]; ok {
		return r.lo, r.hi, r
	}
	return 0, umax(t), nil
}

func (k *knowledge) getRange(t *Term) *rng {
	r, ok := k.ranges[t.ID]
	if !ok {
		r = &rng{lo: 0, hi: umax(t)}
		k.ranges[t.ID] = r
	}
	return r
}

// decide returns (known, value).
func (k *knowledge) decide(c *Term) (bool, bool) {
	if c.IsConst() {
		return true, c.Val != 0
	}
	if v, ok := k.truth[c.ID]; ok {
		return true, v
	}
	switch c.Op {
	case OpNot:
		kn, v := k.decide(c.A[0])
		return kn, !v
	case OpBAnd:
		k1, v1 := k.decide(c.A[0])
		k2, v2 := k.decide(c.A[1])
		if (k1 && !v1) || (k2 && !v2) {
			return true, false
		}
		if k1 && k2 {
			return true, true
		}
	case OpBOr:
		k1, v1 := k.decide(c.A[0])
		k2, v2 := k.decide(c.A[1])
		if (k1 && v1) || (k2 && v2) {
			return true, true
		}
		if k1 && k2 {
			return true, false
		}
	case OpULt:
		alo, ahi, _ := k.rangeOf(c.A[0])
		blo, bhi, _ := k.rangeOf(c.A[1])
		if ahi < blo {
			return true, true
		}
		if alo >= bhi {
			return true, false
		}
	case OpULe:
		alo, ahi, _ := k.rangeOf(c.A[0])
		blo, bhi, _ := k.rangeOf(c.A[1])
		if ahi <= blo {
			return true, true
		}
		if alo > bhi {
			return true, false
		}
	case OpEq:
		if c.A[0].W == 0 {
			return false, false
		}
		a, b := c.A[0], c.A[1]
		if a.IsConst() {
			a, b = b, a
		}
		if b.IsConst() {
			lo, hi, r := k.rangeOf(a)
			if b.Val < lo || b.Val > hi {
				return true, false
			}
			if lo == hi {
				return true, true
			}
			if r != nil {
				for _, x := range r.excl {
					if x == b.Val {
						return true, false
					}
				}
			}
		} else {
			alo, ahi, _ := k.rangeOf(a)
			blo, bhi, _ := k.rangeOf(b)
			if ahi < blo || bhi < alo {
				return true, false
			}
		}
	}
	return false, false
}

// learn records that c holds.
func (k *knowledge) learn(c *Term) {
	k.learnV(c, true)
}

func (k *knowledge) learnV(c *Term, v bool) {
	if c.IsConst() {
		return
	}
	k.truth[c.ID] = v
	switch c.Op {
	case OpNot:
		k.learnV(c.A[0], !v)
	case OpBAnd:
		if v {
			k.learnV(c.A[0], true)
			k.learnV(c.A[1], true)
		}
	case OpBOr:
		if !v {
			k.learnV(c.A[0], false)
			k.learnV(c.A[1], false)
		}
	case OpULt:
		a, b := c.A[0], c.A[1]
		if v {
			// a < b
			if b.IsConst() && !a.IsConst() && b.Val > 0 {
				k.setHi(a, b.Val-1)
			}
			if a.IsConst() && !b.IsConst() && a.Val < ^uint64(0) {
				k.setLo(b, a.Val+1)
			}
		} else {
			// a >= b
			if b.IsConst() && !a.IsConst() {
				k.setLo(a, b.Val)
			}
			if a.IsConst() && !b.IsConst() {
				k.setHi(b, a.Val)
			}
		}
	case OpULe:
		a, b := c.A[0], c.A[1]
		if v {
			if b.IsConst() && !a.IsConst() {
				k.setHi(a, b.Val)
			}
			if a.IsConst() && !b.IsConst() {
				k.setLo(b, a.Val)
			}
		} else {
			// a > b
			if b.IsConst() && !a.IsConst() && b.Val < ^uint64(0) {
				k.setLo(a, b.Val+1)
			}
			if a.IsConst() && !b.IsConst() && a.Val > 0 {
				k.setHi(b, a.Val-1)
			}
		}
	case OpEq:
		if c.A[0].W == 0 {
			return
		}
		a, b := c.A[0], c.A[1]
		if a.IsConst() {
			a, b = b, a
		}
		if !b.IsConst() || a.IsConst() {
			return
		}
		if v {
			k.setLo(a, b.Val)
			k.setHi(a, b.Val)
		} else {
			r := k.getRange(a)
			switch {
			case b.Val == r.lo && r.lo < r.hi:
				r.lo++
				k.tighten(r)
			case b.Val == r.hi && r.lo < r.hi:
				r.hi--
				k.tighten(r)
			default:
				if len(r.excl) < 16 {
					r.excl = append(r.excl, b.Val)
				}
			}
		}
	}
}

func (k *knowledge) tighten(r *rng) {
	changed := true
	for changed && r.lo < r.hi {
		changed = false
		for _, x := range r.excl {
			if x == r.lo && r.lo < r.hi {
				r.lo++
				changed = true
			}
			if x == r.hi && r.lo < r.hi {
				r.hi--
				changed = true
			}
		}
	}
}

func (k *knowledge) setLo(t *Term, v uint64) {
	r := k.getRange(t)
	if v > r.lo {
		r.lo = v
		k.tighten(r)
	}
}

func (k *knowledge) setHi(t *Term, v uint64) {
	r := k.getRange(t)
	if v < r.hi {
		r.hi = v
		k.tighten(r)
	}
}
