package main

import (
	"crypto/sha256"
	"encoding/json"
	"flag"
	"fmt"
	"os"
	"os/exec"
	"path/filepath"
	"runtime"
	"sort"
	"strconv"
	"strings"
	"time"

	"golang.org/x/tools/go/ssa"
)

type CheckSpec struct {
	Harnesses   []HarnessSpec `json:"harnesses"`
	Assumptions []string      `json:"assumptions"`
	Explanation string        `json:"explanation"`
	Bounds      []string      `json:"bounds"`
	Outside     []string      `json:"outside"`
	Level       string        `json:"level,omitempty"`
}

type KnownFinding struct {
	Property string `json:"property"`
	Harness  string `json:"harness"`
	Label    string `json:"label"`
	Kind     string `json:"kind"`
	When     string `json:"when"`
	Text     string `json:"text"`
	Fixed    string `json:"fixed,omitempty"` // commit id: entry is historical and suppresses nothing
}

type nativeCase struct {
	ID      string        `json:"id"`
	Harness string        `json:"harness"`
	Inputs  []ReplayValue `json:"inputs"`
	Tier    int           `json:"tier"`
	Repeat  int           `json:"repeat"`
}

type nativeResult struct {
	ID      string   `json:"id"`
	Outcome string   `json:"outcome"`
	Detail  string   `json:"detail"`
	Failed  []string `json:"failed"`
	Obs     []ObsRec `json:"obs"`
	Asserts int      `json:"asserts"`
}

const toolchainBin = "/root/go/pkg/mod/golang.org/toolchain@v0.0.1-go1.25.0.linux-amd64/bin"

func goEnv() []string {
	env := os.Environ()
	out := env[:0:0]
	for _, kv := range env {
		if strings.HasPrefix(kv, "PATH=") || strings.HasPrefix(kv, "GOFLAGS=") || strings.HasPrefix(kv, "GOTOOLCHAIN=") ||
			strings.HasPrefix(kv, "GOPROXY=") || strings.HasPrefix(kv, "GOSUMDB=") {
			continue
		}
		out = append(out, kv)
	}
	out = append(out, "PATH="+toolchainBin+":"+os.Getenv("PATH"), "GOFLAGS=-mod=mod", "GOPROXY=off", "GOSUMDB=off", "GOTOOLCHAIN=local")
	return out
}

// harnessNames lists every niladic function named h[A-Z]* defined in the package.
func harnessNames(pkg *ssa.Package) []string {
	var out []string
	for name, m := range pkg.Members {
		fn, ok := m.(*ssa.Function)
		if !ok || len(name) < 2 || name[0] != 'h' || name[1] < 'A' || name[1] > 'Z' {
			continue
		}
		if fn.Signature.Params().Len() != 0 || fn.Signature.Results().Len() != 0 {
			continue
		}
		out = append(out, name)
	}
	sort.Strings(out)
	return out
}

// runNative compiles the harness natively (overlay into repo, nothing written there) and runs the batch.
func runNative(repo, hdir, workDir string, names []string, cases []nativeCase, race bool) (map[string]nativeResult, string, error) {
	if len(cases) == 0 {
		return map[string]nativeResult{}, "", nil
	}
	if err := os.MkdirAll(workDir, 0o755); err != nil {
		return nil, "", err
	}
	// registry
	var sb strings.Builder
	sb.WriteString("package vanguard\n\nvar verifHarnesses = map[string]func(){\n")
	for _, n := range names {
		fmt.Fprintf(&sb, "\t%q: %s,\n", n, n)
	}
	sb.WriteString("}\n")
	regPath := filepath.Join(workDir, "registry_native.go")
	if err := os.WriteFile(regPath, []byte(sb.String()), 0o644); err != nil {
		return nil, "", err
	}
	replace := map[string]string{filepath.Join(repo, "zz_verif_registry_native.go"): regPath}
	ents, _ := os.ReadDir(hdir)
	for _, ent := range ents {
		n := ent.Name()
		if !strings.HasSuffix(n, ".go") || strings.HasSuffix(n, "_sym.go") {
			continue // *_sym.go: the symbolic engine's side of a two-sided helper (its native side is in native/)
		}
		replace[filepath.Join(repo, "zz_verif_"+n)] = filepath.Join(hdir, n)
	}
	nents, _ := os.ReadDir(filepath.Join(hdir, "native"))
	for _, ent := range nents {
		n := ent.Name()
		if !strings.HasSuffix(n, ".go") {
			continue
		}
		target := "zz_verif_" + n
		if strings.HasSuffix(n, "_test.go") {
			target = "zz_verif_" + n
		}
		replace[filepath.Join(repo, target)] = filepath.Join(hdir, "native", n)
	}
	ov, _ := json.Marshal(map[string]any{"Replace": replace})
	ovPath := filepath.Join(workDir, "overlay.json")
	os.WriteFile(ovPath, ov, 0o644)
	batchPath := filepath.Join(workDir, "batch.json")
	outPath := filepath.Join(workDir, "out.json")
	var results []nativeResult
	var log string
	remaining := cases
	// The native twin writes one result line per finished case. A case that kills the process (Go's unrecoverable
	// fatal errors: unlock of an unlocked mutex, concurrent map writes, stack exhaustion ...) is recorded with
	// outcome "fatal" and the run is resumed behind it.
	for restarts := 0; len(remaining) > 0; restarts++ {
		os.Remove(outPath)
		b, _ := json.Marshal(remaining)
		os.WriteFile(batchPath, b, 0o644)
		args := []string{"test", "-vet=off", "-count=1", "-run", "^TestVerifReplay$", "-overlay", ovPath, "-timeout", "20m"}
		if race {
			args = append(args, "-race")
		}
		args = append(args, ".")
		cmd := exec.Command("go", args...)
		cmd.Dir = repo
		cmd.Env = append(goEnv(), "VERIF_BATCH="+batchPath, "VERIF_OUT="+outPath)
		outb, err := cmd.CombinedOutput()
		log += string(outb)
		data, rerr := os.ReadFile(outPath)
		if rerr != nil {
			return nil, log, fmt.Errorf("native run produced no results (%v): %s", err, tail(log, 2000))
		}
		got := 0
		for _, line := range strings.Split(string(data), "\n") {
			if strings.TrimSpace(line) == "" {
				continue
			}
			var r nativeResult
			if jerr := json.Unmarshal([]byte(line), &r); jerr != nil {
				return nil, log, jerr
			}
			results = append(results, r)
			got++
		}
		if got >= len(remaining) {
			break
		}
		if got > 0 && results[len(results)-1].Outcome == "timeout" && restarts < 16 {
			// the twin ends its process after a case that did not return (its goroutine would keep running)
			remaining = remaining[got:]
			continue
		}
		if !strings.Contains(string(outb), "fatal error:") || restarts >= 16 {
			return nil, log, fmt.Errorf("native run stopped after %d of %d cases (%v): %s", got, len(remaining), err, tail(string(outb), 2000))
		}
		fatal := string(outb)
		if i := strings.Index(fatal, "fatal error:"); i >= 0 {
			fatal = fatal[i:]
		}
		if len(fatal) > 1500 {
			fatal = fatal[:1500]
		}
		results = append(results, nativeResult{ID: remaining[got].ID, Outcome: "fatal", Detail: fatal})
		remaining = remaining[got+1:]
	}
	m := map[string]nativeResult{}
	for _, r := range results {
		m[r.ID] = r
	}
	return m, log, nil
}

func tail(s string, n int) string {
	if len(s) > n {
		return s[len(s)-n:]
	}
	return s
}

func hashInputs(h string, in []ReplayValue) string {
	b, _ := json.Marshal(in)
	s := sha256.Sum256(append([]byte(h), b...))
	return fmt.Sprintf("%x", s[:6])
}

type replayFile struct {
	Property string           `json:"property"`
	Harness  string           `json:"harness"`
	Kind     string           `json:"kind"`
	Label    string           `json:"label"`
	Detail   string           `json:"detail"`
	Tier     string           `json:"tier"`
	Inputs   []ReplayValue    `json:"inputs"`
	Named    map[string]int64 `json:"named"`
	Native   *nativeResult    `json:"native_result,omitempty"`
}

func cmdCheck(args []string) {
	fs := flag.NewFlagSet("check", flag.ExitOnError)
	repo := fs.String("repo", "/repo", "repository")
	root := fs.String("root", "/verif", "verif root")
	prop := fs.String("property", "", "property id")
	tier := fs.String("tier", "quick", "quick|thorough")
	workers := fs.Int("j", runtime.NumCPU(), "workers")
	replay := fs.String("replay", "", "replay a single file natively")
	verbose := fs.Bool("v", false, "verbose")
	fs.Parse(args)
	hdir := filepath.Join(*root, "harness")
	if *replay != "" {
		os.Exit(doReplay(*repo, *root, hdir, *replay))
	}
	t0 := time.Now()
	seed := 0
	if s := os.Getenv("VERIF_SEED"); s != "" {
		seed, _ = strconv.Atoi(s)
	}
	var all map[string]CheckSpec
	cb, err := os.ReadFile(filepath.Join(*root, "checks.json"))
	if err != nil {
		fmt.Println("INCONCLUSIVE: cannot read checks.json:", err)
		os.Exit(2)
	}
	if err := json.Unmarshal(cb, &all); err != nil {
		fmt.Println("INCONCLUSIVE: bad checks.json:", err)
		os.Exit(2)
	}
	spec, ok := all[*prop]
	if !ok {
		fmt.Println("INCONCLUSIVE: unknown property", *prop)
		os.Exit(2)
	}
	// the claim text (bounds, what is outside) is echoed into the evidence
	claimLevel, claimNote := "", ""
	if cb, err := os.ReadFile(filepath.Join(*root, "tools", "claims.json")); err == nil {
		var claims map[string]map[string]string
		if json.Unmarshal(cb, &claims) == nil {
			claimLevel, claimNote = claims[*prop]["level"], claims[*prop]["note"]
		}
	}
	var known []KnownFinding
	if kb, err := os.ReadFile(filepath.Join(*root, "known_findings.json")); err == nil {
		json.Unmarshal(kb, &known)
	}
	var activeKnown []KnownFinding
	for _, k := range known {
		if k.Property == *prop && k.Fixed == "" {
			activeKnown = append(activeKnown, k)
		}
	}

	ld, err := loadRepo(*repo, hdir)
	if err != nil {
		fmt.Println("INCONCLUSIVE: harness does not load against the current tree:", err)
		os.Exit(2)
	}
	loadS := time.Since(t0).Seconds()
	cfg := defaultConfig(*tier)
	cfg.Verbose = *verbose
	cfg.Known = activeKnown
	cfg.Property = *prop
	if *tier == "thorough" {
		cfg.SamplesPer = 64
		cfg.CrossEvery = 1
		cfg.StepBudget = 20_000_000
	} else {
		cfg.StopOnFirst = true
	}
	var specs []HarnessSpec
	for _, h := range spec.Harnesses {
		if len(h.Tiers) > 0 {
			use := false
			for _, t := range h.Tiers {
				if t == *tier {
					use = true
				}
			}
			if !use {
				continue
			}
		}
		specs = append(specs, h)
	}
	co, err := NewCoordinator(ld, cfg, specs, *workers)
	if err != nil {
		fmt.Println("INCONCLUSIVE:", err)
		os.Exit(2)
	}
	tE := time.Now()
	co.Run()
	exploreS := time.Since(tE).Seconds()

	// ---- collect ----
	var inconclusive []string
	inconclusive = append(inconclusive, co.fatal...)
	totalPaths, totalDec, totalObl, totalDis := 0, 0, 0, 0
	funcs := map[string]bool{}
	outside := map[string]int{}
	witnesses := map[string]int{}
	ranges := map[string]string{}
	var oblSamples []obligationRec
	var viols []Violation
	var samples []PathSample
	var knownHits []string
	perHarness := []map[string]any{}
	infeasible := 0
	var steps int64
	for i, st := range co.stats {
		totalPaths += st.Paths
		totalDec += st.Decisions
		totalObl += st.Obligations
		totalDis += st.Discharged
		infeasible += st.Infeasible
		steps += st.Steps
		for k := range st.Funcs {
			funcs[k] = true
		}
		for k, v := range st.Outside {
			outside[k] += v
		}
		for k, v := range st.Ranges {
			ranges[st.Name+"."+k] = v
		}
		for k, v := range st.Unsupported {
			inconclusive = append(inconclusive, fmt.Sprintf("%s: %d× %s", st.Name, v, k))
		}
		if st.UnknownObl > 0 {
			inconclusive = append(inconclusive, fmt.Sprintf("%s: %d obligations not decided by any solver", st.Name, st.UnknownObl))
		}
		// vacuity witnesses
		for _, lbl := range reachLabels(co.fns[i]) {
			witnesses[st.Name+":"+lbl] = st.Reach[lbl]
		}
		oblSamples = append(oblSamples, st.OblSamples...)
		viols = append(viols, st.Violations...)
		samples = append(samples, st.Samples...)
		knownHits = append(knownHits, st.KnownHits...)
		perHarness = append(perHarness, map[string]any{"harness": st.Name, "paths": st.Paths, "decisions": st.Decisions,
			"obligations": st.Obligations, "discharged": st.Discharged, "infeasible_pruned": st.Infeasible,
			"instructions": st.Steps, "max_decision_depth": st.MaxDepth, "worker_wall_s": round2(st.Wall.Seconds())})
	}
	if len(oblSamples) > 10 {
		oblSamples = oblSamples[:10]
	}

	// ---- native: replay violations, validate samples ----
	names := harnessNames(ld.Pkg)
	tierN := 0
	if *tier == "thorough" {
		tierN = 1
	}
	var cases []nativeCase
	type vref struct {
		v  *Violation
		id string
	}
	var vrefs []vref
	perLabel := map[string]int{}
	for i := range viols {
		v := &viols[i]
		key := v.Harness + "|" + v.Kind + "|" + v.Label
		perLabel[key]++
		if perLabel[key] > 3 {
			continue
		}
		id := "v-" + v.Harness + "-" + hashInputs(v.Harness, v.Inputs)
		rep := 1
		for _, d := range v.Trace {
			if d.Kind == "mo" {
				rep = 200
			}
		}
		cases = append(cases, nativeCase{ID: id, Harness: v.Harness, Inputs: v.Inputs, Tier: tierN, Repeat: rep})
		vrefs = append(vrefs, vref{v, id})
	}
	for i, s := range samples {
		id := fmt.Sprintf("s-%d", i)
		cases = append(cases, nativeCase{ID: id, Harness: s.Harness, Inputs: s.Inputs, Tier: tierN, Repeat: 1})
	}
	workDir := filepath.Join(*root, "work", *prop+"-"+*tier)
	tN := time.Now()
	nres, nlog, nerr := runNative(*repo, hdir, workDir, names, cases, false)
	nativeS := time.Since(tN).Seconds()
	if nerr != nil {
		inconclusive = append(inconclusive, "native run failed: "+nerr.Error())
		_ = nlog
	}
	validated := 0
	var mismatches []string
	if nerr == nil {
		for i, s := range samples {
			r, ok := nres[fmt.Sprintf("s-%d", i)]
			if !ok {
				mismatches = append(mismatches, fmt.Sprintf("%s sample %d: no native result", s.Harness, i))
				continue
			}
			if r.Outcome != "done" || len(r.Failed) > 0 {
				mismatches = append(mismatches, fmt.Sprintf("%s sample %d: engine path completed with %d assertions holding, native outcome=%s failed=%v %s", s.Harness, i, s.Asserts, r.Outcome, r.Failed, firstLine(r.Detail)))
				continue
			}
			if !sameObs(s.Obs, r.Obs) {
				mismatches = append(mismatches, fmt.Sprintf("%s sample %d: observables differ: engine=%v native=%v", s.Harness, i, s.Obs, r.Obs))
				continue
			}
			validated++
		}
	}
	for _, m := range mismatches {
		inconclusive = append(inconclusive, "translator validation: "+m)
	}

	// ---- violations: confirm by replay ----
	repDir := filepath.Join(*root, "replays", *prop)
	confirmed := 0
	var violationLines []string
	if nerr == nil {
		for _, vr := range vrefs {
			v := vr.v
			r := nres[vr.id]
			ok := false
			switch v.Kind {
			case "panic":
				ok = r.Outcome == "panic" || r.Outcome == "timeout" || r.Outcome == "fatal"
			case "hang":
				ok = r.Outcome == "timeout" // the real code does not return either
			case "assert":
				for _, f := range r.Failed {
					if f == v.Label {
						ok = true
					}
				}
			}
			os.MkdirAll(repDir, 0o755)
			path := filepath.Join(repDir, v.Harness+"-"+hashInputs(v.Harness, v.Inputs)+".json")
			rf := replayFile{Property: *prop, Harness: v.Harness, Kind: v.Kind, Label: v.Label, Detail: v.Detail, Tier: *tier,
				Inputs: v.Inputs, Named: v.Named, Native: &r}
			jb, _ := json.MarshalIndent(rf, "", " ")
			os.WriteFile(path, jb, 0o644)
			if ok {
				confirmed++
				violationLines = append(violationLines, fmt.Sprintf("VIOLATION property=%s replay=%s", *prop, path))
				fmt.Printf("  violated: harness=%s kind=%s label=%q inputs=%v %s\n", v.Harness, v.Kind, v.Label, v.Named, firstLine(v.Detail))
			} else {
				inconclusive = append(inconclusive, fmt.Sprintf("UNCONFIRMED counterexample (engine/model bug?): %s %s %q native outcome=%s failed=%v replay=%s", v.Harness, v.Kind, v.Label, r.Outcome, r.Failed, path))
			}
		}
	}
	// vacuity
	if len(viols) == 0 {
		for k, n := range witnesses {
			if n == 0 {
				inconclusive = append(inconclusive, "vacuity: witness never reached: "+k)
			}
		}
	}

	// ---- solver stats ----
	solverTime := 0.0
	queries := map[string]map[string]float64{}
	for _, ss := range co.solverS {
		for name, m := range ss {
			q := queries[name]
			if q == nil {
				q = map[string]float64{}
				queries[name] = q
			}
			for k, v := range m {
				switch x := v.(type) {
				case int:
					q[k] += float64(x)
				case float64:
					q[k] += x
					if k == "time_s" {
						solverTime += x
					}
				}
			}
		}
	}

	// ---- evidence ----
	fnList := sortedKeys(funcs)
	var sampleList []any
	for _, o := range oblSamples {
		sampleList = append(sampleList, o)
	}
	for i, s := range samples {
		if i >= 3 {
			break
		}
		sampleList = append(sampleList, map[string]any{"validated_path": s.Harness, "inputs": compactInputs(s.Inputs), "observables": s.Obs})
	}
	if len(sampleList) == 0 {
		sampleList = append(sampleList, map[string]any{"note": "no obligations recorded"})
	}
	sort.Strings(knownHits)
	knownHits = uniq(knownHits)
	cov := map[string]any{
		"states":                        totalPaths,
		"transitions":                   totalDec + totalPaths,
		"traces_validated_against_impl": validated,
		"samples":                       sampleList,
		"obligations":                   totalObl,
		"discharged":                    totalDis,
		"explanation":                   spec.Explanation,
		"claim_within_bounds":           claimLevel,
		"outside_the_claim":             claimNote,
		"functions_encoded":             fnList,
		"bounds":                        append(append([]string{}, spec.Bounds...), rangesList(ranges)...),
		"outside":                       spec.Outside,
		"outside_cuts_hit":              outside,
		"queries":                       queries,
		"solver_time_s":                 round2(solverTime),
		"pruned_infeasible":             infeasible,
		"witnesses":                     witnesses,
		"per_harness":                   perHarness,
		"instructions_interpreted":      steps,
		"known_findings_hit":            knownHits,
		"inconclusive":                  inconclusive,
		"phase_s":                       map[string]float64{"load_ssa": round2(loadS), "explore": round2(exploreS), "native": round2(nativeS)},
		"harness_files":                 ld.Harness,
	}
	ev := map[string]any{
		"property_id": *prop, "tier": *tier, "seed": seed, "level": levelOf(spec),
		"coverage": cov, "assumptions": spec.Assumptions, "wall_s": round2(time.Since(t0).Seconds()),
		"violations": confirmed,
	}
	os.MkdirAll(filepath.Join(*root, "evidence"), 0o755)
	eb, _ := json.MarshalIndent(ev, "", " ")
	os.WriteFile(filepath.Join(*root, "evidence", *prop+".json"), eb, 0o644)

	// ---- verdict ----
	fmt.Printf("%s %s: paths=%d decisions=%d obligations=%d discharged=%d validated=%d/%d violations=%d known=%d wall=%.1fs (load %.1fs explore %.1fs native %.1fs solver %.1fs)\n",
		*prop, *tier, totalPaths, totalDec, totalObl, totalDis, validated, len(samples), confirmed, len(knownHits), time.Since(t0).Seconds(), loadS, exploreS, nativeS, solverTime)
	for _, k := range knownHits {
		fmt.Println("KNOWN-FINDING: property=" + *prop + " " + k)
	}
	if confirmed > 0 {
		for _, l := range violationLines {
			fmt.Println(l)
		}
		os.Exit(1)
	}
	if len(inconclusive) > 0 {
		for _, m := range inconclusive {
			fmt.Println("INCONCLUSIVE:", m)
		}
		os.Exit(2)
	}
	os.Exit(0)
}

func firstLine(s string) string {
	if i := strings.IndexByte(s, '\n'); i >= 0 {
		s = s[:i]
	}
	if len(s) > 200 {
		s = s[:200]
	}
	return s
}

func round2(f float64) float64 { return float64(int64(f*100+0.5)) / 100 }

func uniq(s []string) []string {
	out := s[:0:0]
	for i, x := range s {
		if i == 0 || x != s[i-1] {
			out = append(out, x)
		}
	}
	return out
}

func rangesList(m map[string]string) []string {
	var out []string
	for _, k := range sortedKeys(m) {
		out = append(out, k+": "+m[k])
	}
	return out
}

func compactInputs(in []ReplayValue) string {
	var sb strings.Builder
	for i, v := range in {
		if i > 0 {
			sb.WriteByte(' ')
		}
		if i > 40 {
			sb.WriteString("…")
			break
		}
		fmt.Fprintf(&sb, "%s=%d", v.Name, v.Val)
	}
	return sb.String()
}

func sameObs(a, b []ObsRec) bool {
	if len(a) != len(b) {
		return false
	}
	for i := range a {
		if a[i] != b[i] {
			return false
		}
	}
	return true
}

// reachLabels statically collects constant labels passed to verifReach in fn and the harness helpers it calls.
func reachLabels(fn *ssa.Function) []string {
	seen := map[*ssa.Function]bool{}
	labels := map[string]bool{}
	var visit func(f *ssa.Function)
	visit = func(f *ssa.Function) {
		if f == nil || seen[f] || f.Blocks == nil {
			return
		}
		seen[f] = true
		for _, b := range f.Blocks {
			for _, in := range b.Instrs {
				call, ok := in.(ssa.CallInstruction)
				if !ok {
					continue
				}
				callee := call.Common().StaticCallee()
				if callee == nil {
					continue
				}
				if callee.Name() == "verifReach" {
					if c, ok := call.Common().Args[0].(*ssa.Const); ok {
						labels[strings.Trim(c.Value.ExactString(), "\"")] = true
					}
					continue
				}
				if callee.Pkg == fn.Pkg && isHarnessFile(callee) {
					visit(callee)
				}
			}
		}
		for _, af := range f.AnonFuncs {
			visit(af)
		}
	}
	visit(fn)
	return sortedKeys(labels)
}

func isHarnessFile(f *ssa.Function) bool {
	if !f.Pos().IsValid() {
		return false
	}
	return strings.Contains(filepath.Base(f.Prog.Fset.Position(f.Pos()).Filename), "zz_verif_")
}

func doReplay(repo, root, hdir, path string) int {
	b, err := os.ReadFile(path)
	if err != nil {
		fmt.Println("cannot read replay:", err)
		return 2
	}
	var rf replayFile
	if err := json.Unmarshal(b, &rf); err != nil {
		fmt.Println("bad replay file:", err)
		return 2
	}
	ld, err := loadRepo(repo, hdir)
	if err != nil {
		fmt.Println("INCONCLUSIVE:", err)
		return 2
	}
	tierN := 0
	if rf.Tier == "thorough" {
		tierN = 1
	}
	res, log, err := runNative(repo, hdir, filepath.Join(root, "work", "replay"), harnessNames(ld.Pkg),
		[]nativeCase{{ID: "r", Harness: rf.Harness, Inputs: rf.Inputs, Tier: tierN, Repeat: 200}}, false)
	if err != nil {
		fmt.Println("native run failed:", err, tail(log, 1000))
		return 2
	}
	r := res["r"]
	fmt.Printf("replay %s: outcome=%s failed=%v\n%s\n", rf.Harness, r.Outcome, r.Failed, r.Detail)
	reproduced := false
	if (rf.Kind == "panic" && (r.Outcome == "panic" || r.Outcome == "timeout" || r.Outcome == "fatal")) || (rf.Kind == "hang" && r.Outcome == "timeout") {
		reproduced = true
	}
	for _, f := range r.Failed {
		if f == rf.Label {
			reproduced = true
		}
	}
	if reproduced {
		fmt.Printf("VIOLATION property=%s replay=%s\n", rf.Property, path)
		return 1
	}
	fmt.Println("not reproduced on the current tree")
	return 0
}

func levelOf(spec CheckSpec) string {
	if spec.Level != "" {
		return spec.Level
	}
	return "model_checking"
}
