package main

import (
	"fmt"
	"os"
	"path/filepath"
	"sort"
	"strings"

	"golang.org/x/tools/go/packages"
	"golang.org/x/tools/go/ssa"
	"golang.org/x/tools/go/ssa/ssautil"
)

type Loaded struct {
	Prog     *ssa.Program
	Pkg      *ssa.Package
	Harness  []string // harness file names injected
	LoadSecs float64
}

// loadRepo type-checks /repo's current working tree plus the harness overlay and builds SSA.
func loadRepo(repo, harnessDir string) (*Loaded, error) {
	overlay := map[string][]byte{}
	var names []string
	ents, err := os.ReadDir(harnessDir)
	if err != nil {
		return nil, err
	}
	for _, ent := range ents {
		n := ent.Name()
		if !strings.HasSuffix(n, ".go") || strings.HasSuffix(n, "_native.go") || strings.HasSuffix(n, "_test.go") {
			continue
		}
		b, err := os.ReadFile(filepath.Join(harnessDir, n))
		if err != nil {
			return nil, err
		}
		overlay[filepath.Join(repo, "zz_verif_"+n)] = b
		names = append(names, n)
	}
	sort.Strings(names)
	cfg := &packages.Config{
		Mode:    packages.LoadAllSyntax,
		Dir:     repo,
		Overlay: overlay,
		Env:     append(os.Environ(), "GOFLAGS=-mod=mod", "GOPROXY=off", "GOSUMDB=off", "GOTOOLCHAIN=local"),
	}
	pkgs, err := packages.Load(cfg, ".")
	if err != nil {
		return nil, err
	}
	if len(pkgs) != 1 {
		return nil, fmt.Errorf("expected 1 package, got %d", len(pkgs))
	}
	var errs []string
	packages.Visit(pkgs, nil, func(p *packages.Package) {
		for _, e := range p.Errors {
			errs = append(errs, e.Error())
		}
	})
	if len(errs) > 0 {
		if len(errs) > 20 {
			errs = errs[:20]
		}
		return nil, fmt.Errorf("load errors (harness does not compile against the tree?):\n%s", strings.Join(errs, "\n"))
	}
	prog, spkgs := ssautil.AllPackages(pkgs, ssa.InstantiateGenerics)
	prog.Build()
	return &Loaded{Prog: prog, Pkg: spkgs[0], Harness: names}, nil
}
