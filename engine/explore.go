package main

import (
	"fmt"
	"go/types"
	"os"
	"sort"
	"strings"
	"time"

	"golang.org/x/tools/go/ssa"
)

// Decision in a path trace.
type Decision struct {
	Kind string `json:"k"` // "br" branch, "cz" concretise, "ch" choose, "mo" maporder
	Site string `json:"s,omitempty"`
	Val  int64  `json:"v"`
}

type workItem struct {
	prefix []Decision
	model  *Model // may be nil
}

// Obligation record (for evidence samples).
type obligationRec struct {
	Harness string `json:"harness"`
	Label   string `json:"label"`
	Verdict string `json:"verdict"`
	Solver  string `json:"solver,omitempty"`
	Ms      int64  `json:"ms"`
	Depth   int    `json:"decisions"`
	Cond    string `json:"cond,omitempty"`
}

type nondetRec struct {
	Name string
	Kind string // "byte","u32","i64","bool","choose"
	T    *Term  // nil for choose
	Val  int64  // for choose
}

type Violation struct {
	Harness string           `json:"harness"`
	Label   string           `json:"label"`
	Kind    string           `json:"kind"` // "assert" | "panic"
	Detail  string           `json:"detail"`
	Trace   []Decision       `json:"trace"`
	Inputs  []ReplayValue    `json:"inputs"`
	Named   map[string]int64 `json:"named"`
	Obs     []ObsRec         `json:"obs,omitempty"`
}

type ReplayValue struct {
	Name string `json:"n"`
	Kind string `json:"k"`
	Val  uint64 `json:"v"`
}

type ObsRec struct {
	Label string `json:"l"`
	Val   string `json:"v"`
}

// PathSample is a completed path with a satisfying model (for translator validation).
type PathSample struct {
	Harness string        `json:"harness"`
	Inputs  []ReplayValue `json:"inputs"`
	Obs     []ObsRec      `json:"obs"`
	Asserts int           `json:"asserts"`
	Panics  bool          `json:"panics"`
}

type HarnessStats struct {
	Name        string
	Paths       int
	Decisions   int
	Infeasible  int
	Outside     map[string]int
	Unsupported map[string]int
	Budget      int
	Hangs       int
	Obligations int
	Discharged  int
	ByModel     int
	UnknownObl  int
	Reach       map[string]int
	Violations  []Violation
	Samples     []PathSample
	OblSamples  []obligationRec
	Steps       int64
	Funcs       map[string]bool
	Models      map[string]bool
	ArithUsed   bool
	Wall        time.Duration
	MaxDepth    int
	Ranges      map[string]string
	KnownHits   []string
	IfConverted int
	SpecAborts  int
	Sites       map[string]int
}

var siteStats = os.Getenv("VSYM_SITES") != ""

func newHarnessStats(name string) *HarnessStats {
	return &HarnessStats{Name: name, Outside: map[string]int{}, Unsupported: map[string]int{}, Reach: map[string]int{},
		Funcs: map[string]bool{}, Models: map[string]bool{}, Ranges: map[string]string{}}
}

func (h *HarnessStats) merge(o *HarnessStats) {
	h.Paths += o.Paths
	h.Decisions += o.Decisions
	h.Infeasible += o.Infeasible
	h.Budget += o.Budget
	h.Obligations += o.Obligations
	h.Discharged += o.Discharged
	h.ByModel += o.ByModel
	h.UnknownObl += o.UnknownObl
	h.Steps += o.Steps
	h.Wall += o.Wall
	for k, v := range o.Sites {
		if h.Sites == nil {
			h.Sites = map[string]int{}
		}
		h.Sites[k] += v
	}
	h.IfConverted += o.IfConverted
	h.SpecAborts += o.SpecAborts
	h.ArithUsed = h.ArithUsed || o.ArithUsed
	if o.MaxDepth > h.MaxDepth {
		h.MaxDepth = o.MaxDepth
	}
	for k, v := range o.Outside {
		h.Outside[k] += v
	}
	for k, v := range o.Unsupported {
		h.Unsupported[k] += v
	}
	for k, v := range o.Reach {
		h.Reach[k] += v
	}
	for k := range o.Funcs {
		h.Funcs[k] = true
	}
	for k := range o.Models {
		h.Models[k] = true
	}
	for k, v := range o.Ranges {
		h.Ranges[k] = v
	}
	h.Violations = append(h.Violations, o.Violations...)
	h.KnownHits = append(h.KnownHits, o.KnownHits...)
	if len(h.Samples) < 64 {
		h.Samples = append(h.Samples, o.Samples...)
	}
	if len(h.OblSamples) < 12 {
		h.OblSamples = append(h.OblSamples, o.OblSamples...)
	}
}

// Engine: one per worker goroutine.
type Engine struct {
	prog               *ssa.Program
	pkg                *ssa.Package
	ts                 *TermStore
	solver             *SolverSet
	runtimeErrorString types.Type

	globals      map[*ssa.Global]*value
	initDone     map[*ssa.Package]bool
	fnInfos      map[*ssa.Function]*fnInfo
	constCache   map[*ssa.Const]value
	implCache    map[implKey]bool
	resolveCache map[*ssa.Function]*resolved
	cfgs         map[*ssa.Function]*fnCFG
	know         *knowledge
	specDepth    int
	specLimit    int64
	noIfConv     bool
	noRetMerge   bool
	fmtSeq       int
	crashWhere   string
	roCells      map[*value]bool
	intrinsics   map[string]intrinsic

	// per path
	cur        *frame
	depth      int
	pc         []*Term
	model      *Model
	prefix     []Decision
	pos        int
	trace      []Decision
	pending    []workItem
	journal    []undoEntry
	journalOn  bool
	steps      int64
	stepBudget int64
	nondets    []nondetRec
	pathVars   []*Term
	obs        []obsEntry
	assertsOK  int
	varSeq     map[string]int
	ghost      *ghostState
	arithUsed  bool
	harness    string
	tier       string
	inInit     int

	stats *HarnessStats
	cfg   *Config
}

type obsEntry struct {
	label string
	v     value
}

type Config struct {
	Tier        string
	StepBudget  int64
	MaxConc     int
	SamplesPer  int
	CrossEvery  int
	PerQueryMs  int
	Solvers     []string
	ArithSolver []string
	Verbose     bool
	StopOnFirst bool
	Known       []KnownFinding
	Property    string
}

func NewEngine(prog *ssa.Program, pkg *ssa.Package, cfg *Config, solvers []string) *Engine {
	e := &Engine{prog: prog, pkg: pkg, cfg: cfg}
	e.ts = NewTermStore()
	e.solver = NewSolverSet(solvers, cfg.PerQueryMs)
	e.globals = map[*ssa.Global]*value{}
	e.initDone = map[*ssa.Package]bool{}
	e.fnInfos = map[*ssa.Function]*fnInfo{}
	e.constCache = map[*ssa.Const]value{}
	e.implCache = map[implKey]bool{}
	e.resolveCache = map[*ssa.Function]*resolved{}
	e.cfgs = map[*ssa.Function]*fnCFG{}
	e.know = newKnowledge()
	e.intrinsics = buildIntrinsics()
	if rt := prog.ImportedPackage("runtime"); rt != nil {
		e.runtimeErrorString = rt.Type("errorString").Object().Type()
	}
	e.stepBudget = cfg.StepBudget
	return e
}

func (e *Engine) touch(fn *ssa.Function) {
	if e.stats != nil && e.inInit == 0 {
		if fn.Pkg == e.pkg || (fn.Pkg == nil && fn.Origin() != nil && fn.Origin().Pkg == e.pkg) {
			n := fn.String()
			if !e.stats.Funcs[n] {
				e.stats.Funcs[n] = true
			}
		}
	}
}

// ---- path condition & decisions -------------------------------------------

func (e *Engine) assume(c *Term) {
	if c.IsTrue() {
		return
	}
	e.pc = append(e.pc, c)
	e.know.learn(c)
}

// assumeAux adds a constraint on auxiliary (engine-introduced, uniquely determined) variables;
// the current model no longer covers them, so it is re-derived on demand.
func (e *Engine) assumeAux(c *Term) {
	e.assume(c)
	if e.pos >= len(e.prefix) {
		e.model = nil
	}
}

func (e *Engine) vars() []*Term { return e.pathVars }

func (e *Engine) check(extra *Term, wantModel bool) (SatResult, *Model, string) {
	return e.solver.Check(e.pc, extra, e.vars(), wantModel)
}

// ensureModel makes sure e.model satisfies the pc (or ends the path if infeasible).
func (e *Engine) ensureModel() {
	if e.model != nil {
		return
	}
	r, m, _ := e.check(nil, true)
	switch r {
	case Sat:
		e.model = m
	case Unsat:
		panic(pathEnd{kind: "infeasible", reason: "prefix unsat"})
	default:
		panic(pathEnd{kind: "unsupported", reason: "solver unknown on path condition"})
	}
}

// branch decides a boolean condition; forks when both sides are feasible.
func (e *Engine) branch(cond *Term, site string) bool {
	if cond.IsConst() {
		return cond.Val != 0
	}
	if known, v := e.know.decide(cond); known {
		return v
	}
	if e.specDepth > 0 {
		panic(specAbort{"fork at " + site})
	}
	if e.pos < len(e.prefix) {
		d := e.prefix[e.pos]
		e.pos++
		if d.Kind != "br" {
			panic(fmt.Sprintf("trace mismatch: expected %s got br at %s (%s)", d.Kind, site, e.where()))
		}
		e.trace = append(e.trace, d)
		if d.Val != 0 {
			e.assume(cond)
			return true
		}
		e.assume(e.ts.Not(cond))
		return false
	}
	e.ensureModel()
	taken := e.model.Truth(cond)
	var other *Term
	if taken {
		other = e.ts.Not(cond)
	} else {
		other = cond
	}
	r, m, _ := e.check(other, true)
	if r != Unsat {
		d := Decision{Kind: "br", Val: b2i(!taken)}
		np := make([]Decision, len(e.trace)+1)
		copy(np, e.trace)
		np[len(e.trace)] = d
		e.pending = append(e.pending, workItem{prefix: np, model: m})
	} else {
		e.stats.Infeasible++
		if siteStats {
			w := e.where()
			if i := strings.Index(w, " <- "); i > 0 {
				j := strings.Index(w[i+4:], " <- ")
				if j > 0 {
					w = w[:i+4+j]
				}
			}
			if e.stats.Sites == nil {
				e.stats.Sites = map[string]int{}
			}
			e.stats.Sites[site+" "+w]++
		}
	}
	e.trace = append(e.trace, Decision{Kind: "br", Val: b2i(taken)})
	if taken {
		e.assume(cond)
	} else {
		e.assume(e.ts.Not(cond))
	}
	return taken
}

func b2i(b bool) int64 {
	if b {
		return 1
	}
	return 0
}

// concretise picks a concrete value for t, forking on the other feasible values.
func (e *Engine) concretise(t *Term, what string) int64 {
	if t.IsConst() {
		return sext64(t.Val, t.W)
	}
	var v uint64
	if lo, hi, _ := e.know.rangeOf(t); lo == hi {
		return sext64(lo, t.W)
	}
	if e.specDepth > 0 {
		panic(specAbort{"concretise " + what})
	}
	if e.pos < len(e.prefix) {
		d := e.prefix[e.pos]
		e.pos++
		if d.Kind != "cz" {
			panic(fmt.Sprintf("trace mismatch: expected %s got cz at %s", d.Kind, e.where()))
		}
		e.trace = append(e.trace, d)
		v = uint64(d.Val)
		e.assume(e.ts.Eq(t, e.ts.Const(t.W, v)))
		return sext64(v&mask(t.W), t.W)
	}
	e.ensureModel()
	v = e.model.Eval(t)
	// enumerate the other feasible values (as one growing exclusion term; the pc is untouched)
	excl := e.ts.Not(e.ts.Eq(t, e.ts.Const(t.W, v)))
	cnt := 1
	for {
		r, cur, _ := e.check(excl, true)
		if r == Unsat {
			break
		}
		if r != Sat || cur == nil {
			e.unsupported("solver unknown while concretising " + what)
		}
		v2 := cur.Eval(t)
		np := make([]Decision, len(e.trace)+1)
		copy(np, e.trace)
		np[len(e.trace)] = Decision{Kind: "cz", Val: int64(v2)}
		e.pending = append(e.pending, workItem{prefix: np, model: cur})
		cnt++
		if cnt > e.cfg.MaxConc {
			panic(pathEnd{kind: "budget", reason: fmt.Sprintf("more than %d values while concretising %s at %s", e.cfg.MaxConc, what, e.where())})
		}
		excl = e.ts.And(excl, e.ts.Not(e.ts.Eq(t, e.ts.Const(t.W, v2))))
	}
	e.trace = append(e.trace, Decision{Kind: "cz", Val: int64(v)})
	e.assume(e.ts.Eq(t, e.ts.Const(t.W, v)))
	return sext64(v, t.W)
}

// choose forks over n alternatives (harness-visible decision).
func (e *Engine) choose(name string, n int) int {
	if n <= 1 {
		return 0
	}
	if e.specDepth > 0 {
		panic(specAbort{"choose"})
	}
	if e.pos < len(e.prefix) {
		d := e.prefix[e.pos]
		e.pos++
		if d.Kind != "ch" {
			panic(fmt.Sprintf("trace mismatch: expected %s got ch(%s)", d.Kind, name))
		}
		e.trace = append(e.trace, d)
		return int(d.Val)
	}
	for i := n - 1; i >= 1; i-- {
		np := make([]Decision, len(e.trace)+1)
		copy(np, e.trace)
		np[len(e.trace)] = Decision{Kind: "ch", Site: name, Val: int64(i)}
		e.pending = append(e.pending, workItem{prefix: np, model: e.model})
	}
	e.trace = append(e.trace, Decision{Kind: "ch", Site: name, Val: 0})
	return 0
}

// mapOrder returns the iteration order for a map range. Maps with <=1 entries are trivial.
// Otherwise: insertion order and its reverse are explored (and all permutations for <=3 entries).
func (e *Engine) mapOrder(m *hmap) []value {
	n := len(m.keys)
	keys := make([]value, n)
	copy(keys, m.keys)
	if n <= 1 || e.ghost.fixedMapOrder {
		return keys
	}
	if e.specDepth > 0 {
		panic(specAbort{"maporder"})
	}
	var perms [][]int
	if n <= 3 {
		idx := make([]int, n)
		for i := range idx {
			idx[i] = i
		}
		var rec func(k int)
		rec = func(k int) {
			if k == n {
				p := make([]int, n)
				copy(p, idx)
				perms = append(perms, p)
				return
			}
			for i := k; i < n; i++ {
				idx[k], idx[i] = idx[i], idx[k]
				rec(k + 1)
				idx[k], idx[i] = idx[i], idx[k]
			}
		}
		rec(0)
	} else {
		a := make([]int, n)
		b := make([]int, n)
		for i := range a {
			a[i] = i
			b[i] = n - 1 - i
		}
		perms = [][]int{a, b}
	}
	var pick int
	if e.pos < len(e.prefix) {
		d := e.prefix[e.pos]
		e.pos++
		if d.Kind != "mo" {
			panic(fmt.Sprintf("trace mismatch: expected %s got mo", d.Kind))
		}
		e.trace = append(e.trace, d)
		pick = int(d.Val)
	} else {
		for i := len(perms) - 1; i >= 1; i-- {
			np := make([]Decision, len(e.trace)+1)
			copy(np, e.trace)
			np[len(e.trace)] = Decision{Kind: "mo", Val: int64(i)}
			e.pending = append(e.pending, workItem{prefix: np, model: e.model})
		}
		e.trace = append(e.trace, Decision{Kind: "mo", Val: 0})
	}
	out := make([]value, n)
	for i, j := range perms[pick] {
		out[i] = keys[j]
	}
	return out
}

// ---- nondet ----------------------------------------------------------------

func (e *Engine) freshVar(w uint8, name, kind string) *Term {
	seq := e.varSeq[name]
	e.varSeq[name] = seq + 1
	full := fmt.Sprintf("%s!%s!%d", e.harness, name, seq)
	t := e.ts.Var(w, full)
	e.pathVars = append(e.pathVars, t)
	e.nondets = append(e.nondets, nondetRec{Name: name, Kind: kind, T: t})
	return t
}

// ---- obligations -----------------------------------------------------------

func (e *Engine) recordObl(label, verdict, solver string, ms int64, cond *Term) {
	if len(e.stats.OblSamples) < 6 {
		c := ""
		if cond != nil {
			c = cond.String()
			if len(c) > 300 {
				c = c[:300] + "…"
			}
		}
		e.stats.OblSamples = append(e.stats.OblSamples, obligationRec{Harness: e.harness, Label: label, Verdict: verdict,
			Solver: solver, Ms: ms, Depth: len(e.trace), Cond: c})
	}
}

// assertObl checks an explicit assertion: pc ∧ ¬cond must be unsat.
func (e *Engine) assertObl(cond *Term, label string) {
	e.stats.Obligations++
	if cond.IsTrue() {
		e.stats.Discharged++
		e.assertsOK++
		return
	}
	t0 := time.Now()
	if cond.IsFalse() {
		e.ensureModel()
		e.violation("assert", label, "assertion is constant false on this path", nil)
		panic(pathEnd{kind: "assert", reason: label})
	}
	e.ensureModel()
	neg := e.ts.Not(cond)
	if !e.model.Truth(cond) {
		// current model is a counterexample
		e.stats.ByModel++
		e.recordObl(label, "violated(model)", "", 0, cond)
		e.violation("assert", label, "", neg)
		// continue on the holding side if feasible
		r, m, _ := e.check(cond, true)
		if r == Unsat {
			panic(pathEnd{kind: "assert", reason: label})
		}
		e.model = m
		e.assume(cond)
		return
	}
	r, m, by := e.check(neg, true)
	ms := time.Since(t0).Milliseconds()
	switch r {
	case Unsat:
		e.stats.Discharged++
		e.assertsOK++
		e.recordObl(label, "unsat", by, ms, cond)
		if e.cfg.CrossEvery > 0 && e.stats.Discharged%e.cfg.CrossEvery == 0 {
			if !e.solver.CrossCheck(e.pc, neg, Unsat, by) {
				e.stats.UnknownObl++
				e.stats.Unsupported["solver disagreement on "+label]++
			}
		}
	case Sat:
		saved := e.model
		e.model = m
		e.recordObl(label, "sat", by, ms, cond)
		e.violation("assert", label, "", neg)
		e.model = saved
	default:
		e.stats.UnknownObl++
		e.recordObl(label, "unknown", "", ms, cond)
	}
	e.assume(cond)
}

func (e *Engine) inputsFromModel(m *Model) ([]ReplayValue, map[string]int64) {
	out := make([]ReplayValue, 0, len(e.nondets))
	named := map[string]int64{}
	for _, n := range e.nondets {
		var v uint64
		if n.T != nil {
			v = m.Eval(n.T)
		} else {
			v = uint64(n.Val)
		}
		out = append(out, ReplayValue{Name: n.Name, Kind: n.Kind, Val: v})
		if _, dup := named[n.Name]; !dup {
			if n.T != nil {
				named[n.Name] = sext64(v, n.T.W)
			} else {
				named[n.Name] = int64(v)
			}
		}
	}
	return out, named
}

func (e *Engine) violation(kind, label, detail string, extra *Term) {
	m := e.model
	if m == nil {
		m = NewModel()
	}
	// known findings: is there a violation outside every recorded input class?
	var kterm *Term
	var ktexts []string
	for _, k := range e.cfg.Known {
		if k.Harness != e.harness || k.Label != label || (k.Kind != "" && k.Kind != kind) {
			continue
		}
		t, err := e.compileWhen(k.When)
		if err != nil {
			e.stats.Unsupported["known_findings.json: "+err.Error()]++
			continue
		}
		if kterm == nil {
			kterm = t
		} else {
			kterm = e.ts.Or(kterm, t)
		}
		ktexts = append(ktexts, k.Text)
	}
	if kterm != nil {
		q := e.ts.Not(kterm)
		if extra != nil {
			q = e.ts.And(extra, q)
		}
		r, m2, _ := e.check(q, true)
		switch r {
		case Unsat:
			for _, t := range ktexts {
				e.stats.KnownHits = append(e.stats.KnownHits, t)
			}
			return
		case Sat:
			m = m2
		default:
			e.stats.UnknownObl++
			for _, t := range ktexts {
				e.stats.KnownHits = append(e.stats.KnownHits, t)
			}
			return
		}
	}
	in, named := e.inputsFromModel(m)
	tr := make([]Decision, len(e.trace))
	copy(tr, e.trace)
	v := Violation{Harness: e.harness, Label: label, Kind: kind, Detail: detail, Trace: tr, Inputs: in, Named: named}
	e.stats.Violations = append(e.stats.Violations, v)
}

// ---- running a harness ------------------------------------------------------

type ghostState struct {
	pools         map[*value]*poolGhost
	mutexHeld     map[*value]bool
	poolMode      int
	fixedMapOrder bool
	released      map[*value]bool
	live          map[*value]bool
	ctxCancelled  map[*value]bool
	notes         []string
}

// poolGhost mirrors what the runtime's sync.Pool does for one goroutine that is neither preempted to another P
// nor interrupted by a GC cycle: a private slot that is filled first and emptied first, and a LIFO shared
// queue behind it. (Any other reuse order is legal for sync.Pool too, but this is the one the native twin
// reproduces, so counterexamples that depend on pooled-object reuse replay against the real build.)
type poolGhost struct {
	private    value
	hasPrivate bool
	items      []value
}

func newGhost() *ghostState {
	return &ghostState{pools: map[*value]*poolGhost{}, mutexHeld: map[*value]bool{}, released: map[*value]bool{},
		live: map[*value]bool{}, ctxCancelled: map[*value]bool{}, poolMode: 1, fixedMapOrder: true}
}

func (e *Engine) resetPath() {
	e.rollback()
	e.cur = nil
	e.depth = 0
	e.pc = e.pc[:0]
	e.model = nil
	e.pos = 0
	e.trace = e.trace[:0]
	e.steps = 0
	e.nondets = e.nondets[:0]
	e.pathVars = e.pathVars[:0]
	e.obs = e.obs[:0]
	e.assertsOK = 0
	e.varSeq = map[string]int{}
	e.ghost = newGhost()
	e.arithUsed = false
	e.know = newKnowledge()
	e.specDepth = 0
	e.fmtSeq = 0
	e.roCells = map[*value]bool{}
}

// runPath executes one path following item.prefix; returns how it ended.
func (e *Engine) runPath(fn *ssa.Function, item workItem) (end pathEnd) {
	e.resetPath()
	e.prefix = item.prefix
	e.model = item.model
	e.journalOn = true
	defer func() {
		e.journalOn = false
		r := recover()
		switch r := r.(type) {
		case nil:
			end = pathEnd{kind: "done"}
		case pathEnd:
			end = r
		case targetPanic:
			end = pathEnd{kind: "panic", reason: e.panicText(r)}
		default:
			panic(r)
		}
	}()
	e.call(nil, 0, fn, nil)
	return
}

func (e *Engine) panicText(p targetPanic) string {
	s := "?"
	switch v := p.v.(type) {
	case iface:
		switch x := v.v.(type) {
		case str:
			s = x.show()
		default:
			if v.t != nil {
				s = v.t.String()
			}
		}
	case str:
		s = v.show()
	}
	return s + " @ " + p.site
}

// Explore runs the harness over all paths reachable from the given items (time-sliced).
// Returns remaining items when the budget is exhausted.
func (e *Engine) Explore(fn *ssa.Function, name string, items []workItem, slice time.Duration, maxPaths int) []workItem {
	e.harness = name
	if e.stats == nil {
		e.stats = newHarnessStats(name)
	}
	t0 := time.Now()
	stack := items
	paths := 0
	for len(stack) > 0 {
		if paths > 0 && (time.Since(t0) > slice || paths >= maxPaths) {
			break
		}
		it := stack[len(stack)-1]
		stack = stack[:len(stack)-1]
		e.pending = e.pending[:0]
		end := e.runPath(fn, it)
		paths++
		e.finishPath(end)
		// push alternatives discovered on this path (deepest last => DFS)
		stack = append(stack, e.pending...)
		if e.cfg.StopOnFirst && len(e.stats.Violations) > 0 {
			stack = nil
			break
		}
	}
	e.stats.Wall += time.Since(t0)
	out := make([]workItem, len(stack))
	copy(out, stack)
	return out
}

func (e *Engine) finishPath(end pathEnd) {
	st := e.stats
	st.Steps += e.steps
	st.Decisions += len(e.trace) - len(e.prefix)
	if len(e.trace) > st.MaxDepth {
		st.MaxDepth = len(e.trace)
	}
	if e.arithUsed {
		st.ArithUsed = true
	}
	switch end.kind {
	case "done", "assert":
		st.Paths++
		if end.kind == "done" {
			e.samplePath(false)
		}
	case "panic":
		st.Paths++
		if e.model == nil {
			func() {
				defer func() {
					if r := recover(); r != nil {
						if _, ok := r.(pathEnd); !ok {
							panic(r)
						}
					}
				}()
				e.ensureModel()
			}()
		}
		if e.model != nil {
			e.violation("panic", "no-panic", end.reason, nil)
		} else {
			st.Infeasible++
		}
	case "infeasible":
		st.Infeasible++
	case "outside":
		st.Paths++
		st.Outside[end.reason]++
	case "unsupported":
		st.Unsupported[trimWhere(end.reason)]++
	case "budget":
		st.Budget++
		st.Unsupported["budget: "+trimWhere(end.reason)]++
		if strings.HasPrefix(end.reason, "instruction budget") {
			// A path that does not end within the instruction budget on inputs of a few bytes may be a loop that
			// never ends (C11: ServeHTTP returns in bounded time). It stays inconclusive for the engine, but its
			// inputs go to the native twin: only if the real code does not return there either (timeout) is it
			// reported as a violation.
			if e.model == nil {
				func() {
					defer func() {
						if r := recover(); r != nil {
							if _, ok := r.(pathEnd); !ok {
								panic(r)
							}
						}
					}()
					e.ensureModel()
				}()
			}
			if e.model != nil && st.Hangs < 2 {
				st.Hangs++
				e.violation("hang", "terminates", end.reason, nil)
			}
		}
	}
}

func trimWhere(s string) string {
	if len(s) > 260 {
		return s[:260]
	}
	return s
}

// samplePath records the concrete inputs + observables of a completed path for native validation.
func (e *Engine) samplePath(panics bool) {
	if len(e.stats.Samples) >= e.cfg.SamplesPer {
		return
	}
	if e.model == nil {
		func() {
			defer func() {
				if r := recover(); r != nil {
					if _, ok := r.(pathEnd); !ok {
						panic(r)
					}
				}
			}()
			e.ensureModel()
		}()
		if e.model == nil {
			return
		}
	}
	in, _ := e.inputsFromModel(e.model)
	ps := PathSample{Harness: e.harness, Inputs: in, Asserts: e.assertsOK, Panics: panics}
	for _, o := range e.obs {
		ps.Obs = append(ps.Obs, ObsRec{Label: o.label, Val: e.renderObs(o.v, e.model)})
	}
	e.stats.Samples = append(e.stats.Samples, ps)
}

func (e *Engine) renderObs(v value, m *Model) string {
	switch v := v.(type) {
	case *Term:
		if v.W == 0 {
			if m.Truth(v) {
				return "true"
			}
			return "false"
		}
		return fmt.Sprintf("%d", sext64(m.Eval(v), v.W))
	case str:
		b := make([]byte, len(v.c))
		for i, c := range v.c {
			b[i] = byte(m.Eval(c))
		}
		return fmt.Sprintf("%x", b)
	case []value:
		b := make([]byte, len(v))
		for i, c := range v {
			t, ok := c.(*Term)
			if !ok {
				return "?"
			}
			b[i] = byte(m.Eval(t))
		}
		return fmt.Sprintf("%x", b)
	}
	return "?"
}

func sortedKeys[V any](m map[string]V) []string {
	out := make([]string, 0, len(m))
	for k := range m {
		out = append(out, k)
	}
	sort.Strings(out)
	return out
}

// compileWhen compiles a known-finding predicate: conjunction (&&) of `name op integer`
// over the first nondet of that name on the current path. Names not (yet) drawn make the
// predicate false.
func (e *Engine) compileWhen(when string) (*Term, error) {
	r := e.ts.True
	for _, part := range strings.Split(when, "&&") {
		part = strings.TrimSpace(part)
		if part == "" {
			continue
		}
		var name, op string
		var val int64
		fields := strings.Fields(part)
		if len(fields) != 3 {
			return nil, fmt.Errorf("bad predicate %q", part)
		}
		name, op = fields[0], fields[1]
		if _, err := fmt.Sscanf(fields[2], "%d", &val); err != nil {
			return nil, fmt.Errorf("bad predicate %q", part)
		}
		var t *Term
		var chooseVal int64
		found := false
		for _, n := range e.nondets {
			if n.Name == name {
				t, chooseVal, found = n.T, n.Val, true
				break
			}
		}
		if !found {
			return e.ts.False, nil
		}
		var c *Term
		if t == nil {
			var b bool
			switch op {
			case "==":
				b = chooseVal == val
			case "!=":
				b = chooseVal != val
			case "<":
				b = chooseVal < val
			case "<=":
				b = chooseVal <= val
			case ">":
				b = chooseVal > val
			case ">=":
				b = chooseVal >= val
			default:
				return nil, fmt.Errorf("bad operator %q", op)
			}
			c = e.ts.Bool(b)
		} else {
			if t.W == 0 {
				k := e.ts.Bool(val != 0)
				c = e.ts.Eq(t, k)
				if op == "!=" {
					c = e.ts.Not(c)
				}
			} else {
				k := e.ts.Const(t.W, uint64(val))
				switch op {
				case "==":
					c = e.ts.Eq(t, k)
				case "!=":
					c = e.ts.Not(e.ts.Eq(t, k))
				case "<":
					c = e.ts.Cmp(OpULt, t, k)
				case "<=":
					c = e.ts.Cmp(OpULe, t, k)
				case ">":
					c = e.ts.Cmp(OpULt, k, t)
				case ">=":
					c = e.ts.Cmp(OpULe, k, t)
				default:
					return nil, fmt.Errorf("bad operator %q", op)
				}
			}
		}
		r = e.ts.And(r, c)
	}
	return r, nil
}
