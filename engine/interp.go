package main

import (
	"fmt"
	"go/constant"
	"go/token"
	"go/types"
	"math"
	"strings"

	"golang.org/x/tools/go/ssa"
)

// targetPanic is a Go-level panic in the interpreted program.
type targetPanic struct {
	v    value
	site string
}

// pathEnd aborts the current path (never intercepted by target defers).
type pathEnd struct {
	kind   string // "infeasible", "outside", "unsupported", "budget", "assert", "done"
	reason string
}

type deferred struct {
	fn   value
	args []value
	pos  token.Pos
	tail *deferred
}

type fnInfo struct {
	index map[ssa.Value]int
	n     int
}

type frame struct {
	e                *Engine
	caller           *frame
	fn               *ssa.Function
	info             *fnInfo
	block, prevBlock *ssa.BasicBlock
	env              []value
	defers           *deferred
	result           value
	panicking        bool
	panic            any
	phitemps         []value
	curInstr         ssa.Instruction
	phisDone         bool
}

func (e *Engine) infoFor(fn *ssa.Function) *fnInfo {
	if fi, ok := e.fnInfos[fn]; ok {
		return fi
	}
	fi := &fnInfo{index: make(map[ssa.Value]int)}
	add := func(v ssa.Value) {
		if _, ok := fi.index[v]; !ok {
			fi.index[v] = fi.n
			fi.n++
		}
	}
	for _, p := range fn.Params {
		add(p)
	}
	for _, fv := range fn.FreeVars {
		add(fv)
	}
	for _, b := range fn.Blocks {
		for _, in := range b.Instrs {
			if v, ok := in.(ssa.Value); ok {
				add(v)
			}
		}
	}
	e.fnInfos[fn] = fi
	return fi
}

func (fr *frame) set(k ssa.Value, v value) {
	fr.env[fr.info.index[k]] = v
}

func (fr *frame) get(key ssa.Value) value {
	switch key := key.(type) {
	case nil:
		return nil
	case *ssa.Function, *ssa.Builtin:
		return key
	case *ssa.Const:
		return fr.e.constValue(key)
	case *ssa.Global:
		return fr.e.globalAddr(key)
	}
	if i, ok := fr.info.index[key]; ok {
		return fr.env[i]
	}
	panic(fmt.Sprintf("get: no value for %T: %v in %s", key, key.Name(), fr.fn))
}

func (e *Engine) constValue(c *ssa.Const) value {
	if v, ok := e.constCache[c]; ok {
		return v
	}
	v := e.constValue0(c)
	e.constCache[c] = v
	return v
}

func (e *Engine) constValue0(c *ssa.Const) value {
	if c.Value == nil {
		return e.zero(c.Type()) // typed zero
	}
	t := c.Type()
	if tp, ok := t.(*types.TypeParam); ok {
		_ = tp
		e.unsupported("const of type param")
	}
	if b, ok := t.Underlying().(*types.Basic); ok {
		switch {
		case b.Info()&types.IsBoolean != 0:
			return e.ts.Bool(constant.BoolVal(c.Value))
		case b.Info()&types.IsString != 0:
			if c.Value.Kind() == constant.String {
				return e.mkstr(constant.StringVal(c.Value))
			}
			return e.mkstr(string(rune(c.Int64())))
		case b.Info()&types.IsFloat != 0:
			return c.Float64()
		case b.Info()&types.IsComplex != 0:
			return c.Complex128()
		case b.Kind() == types.UnsafePointer:
			return unsafePtr{}
		case b.Info()&types.IsInteger != 0:
			w, signed, _ := typeWidth(b)
			if signed {
				return e.ts.Const(w, uint64(c.Int64()))
			}
			return e.ts.Const(w, c.Uint64())
		}
	}
	panic(fmt.Sprintf("constValue: %s", c))
}

// ---- panics ---------------------------------------------------------------

func (e *Engine) goPanic(msg string) {
	if e.specDepth > 0 {
		panic(specAbort{"trap: " + msg})
	}
	// runtime.Error-like panic: iface of runtime.errorString
	v := iface{t: e.runtimeErrorString, v: e.mkstr(strings.TrimPrefix(msg, "runtime error: "))}
	panic(targetPanic{v: v, site: e.where()})
}

func (e *Engine) unsupported(why string) {
	if e.specDepth > 0 {
		panic(specAbort{"unsupported: " + why})
	}
	panic(pathEnd{kind: "unsupported", reason: why + " at " + e.where()})
}

func (e *Engine) where() string {
	fr := e.cur
	if fr == nil {
		return "?"
	}
	var sb strings.Builder
	for i := 0; fr != nil && i < 6; i++ {
		if i > 0 {
			sb.WriteString(" <- ")
		}
		sb.WriteString(fr.fn.String())
		if fr.curInstr != nil && fr.curInstr.Pos().IsValid() {
			p := e.prog.Fset.Position(fr.curInstr.Pos())
			fmt.Fprintf(&sb, ":%d", p.Line)
		}
		fr = fr.caller
	}
	return sb.String()
}

// ---- defers ---------------------------------------------------------------

func (fr *frame) runDefer(d *deferred) {
	var ok bool
	defer func() {
		if !ok {
			r := recover()
			if pe, isPE := r.(pathEnd); isPE {
				panic(pe)
			}
			if _, isTP := r.(targetPanic); !isTP {
				panic(r) // engine bug: propagate
			}
			fr.panicking = true
			fr.panic = r
		}
	}()
	fr.e.call(fr, d.pos, d.fn, d.args)
	ok = true
}

func (fr *frame) runDefers() {
	for d := fr.defers; d != nil; d = d.tail {
		fr.runDefer(d)
	}
	fr.defers = nil
	if fr.panicking {
		panic(fr.panic)
	}
}

// ---- calls ----------------------------------------------------------------

func (e *Engine) prepareCall(fr *frame, call *ssa.CallCommon) (fn value, args []value) {
	v := fr.get(call.Value)
	if call.Method == nil {
		fn = v
	} else {
		recv, ok := v.(iface)
		if !ok {
			if o, isO := v.(opaque); isO {
				e.unsupported("invoke on opaque: " + o.why)
			}
			panic(fmt.Sprintf("invoke on %T", v))
		}
		if recv.t == nil {
			e.goPanic("runtime error: invalid memory address or nil pointer dereference (method invoked on nil interface)")
		}
		f := e.lookupMethod(recv.t, call.Method)
		if f == nil {
			e.unsupported(fmt.Sprintf("method set for dynamic type %v does not contain %s", recv.t, call.Method))
		}
		fn = f
		args = append(args, recv.v)
	}
	for _, arg := range call.Args {
		args = append(args, fr.get(arg))
	}
	return
}

func (e *Engine) lookupMethod(typ types.Type, meth *types.Func) *ssa.Function {
	return e.prog.LookupMethod(typ, meth.Pkg(), meth.Name())
}

func (e *Engine) call(caller *frame, pos token.Pos, fn value, args []value) value {
	switch fn := fn.(type) {
	case *ssa.Function:
		if fn == nil {
			e.goPanic("runtime error: invalid memory address or nil pointer dereference (call of nil func)")
		}
		return e.callSSA(caller, pos, fn, args, nil)
	case *closure:
		if fn == nil {
			e.goPanic("runtime error: invalid memory address or nil pointer dereference (call of nil func)")
		}
		return e.callSSA(caller, pos, fn.Fn, args, fn.Env)
	case *ssa.Builtin:
		return e.callBuiltin(caller, fn, args)
	case opaque:
		e.unsupported("call of opaque func: " + fn.why)
	}
	panic(fmt.Sprintf("cannot call %T", fn))
}

func (e *Engine) callSSA(caller *frame, pos token.Pos, fn *ssa.Function, args []value, env []value) value {
	rs := e.resolve(fn)
	if rs.intr != nil {
		if e.specDepth > 0 && !pureIntrinsic(fn.String()) {
			panic(specAbort{"impure intrinsic"})
		}
		fr := &frame{e: e, caller: caller, fn: fn}
		if e.stats != nil && e.inInit == 0 {
			e.stats.Models[fn.String()] = true
		}
		return rs.intr(e, fr, args)
	}
	if rs.redirect != nil {
		if e.stats != nil && e.inInit == 0 {
			e.stats.Models[fn.String()+" -> "+rs.redirect.Name()] = true
		}
		fn = rs.redirect
		env = nil
	}
	if fn.Blocks == nil {
		e.unsupported("no code for function: " + fn.String())
	}
	if fn.TypeParams().Len() > 0 && len(fn.TypeArgs()) == 0 {
		e.unsupported("uninstantiated generic: " + fn.String())
	}
	e.depth++
	if e.depth > 400 {
		e.unsupported("call depth exceeded")
	}
	defer func() { e.depth-- }()
	e.touch(fn)
	fi := e.infoFor(fn)
	fr := &frame{e: e, caller: caller, fn: fn, info: fi}
	fr.env = make([]value, fi.n)
	fr.block = fn.Blocks[0]
	for _, l := range fn.Locals {
		cell := new(value)
		*cell = e.zero(deref(l.Type()))
		fr.set(l, cell)
	}
	for i, p := range fn.Params {
		fr.set(p, args[i])
	}
	for i, fv := range fn.FreeVars {
		fr.set(fv, env[i])
	}
	saved := e.cur
	e.cur = fr
	defer func() { e.cur = saved }()
	for fr.block != nil {
		e.runFrame(fr)
	}
	return fr.result
}

func (e *Engine) runFrame(fr *frame) {
	defer func() {
		if fr.block == nil {
			return // normal return
		}
		r := recover()
		if _, isTP := r.(targetPanic); !isTP {
			switch r.(type) {
			case pathEnd, specAbort:
			default:
				if e.crashWhere == "" {
					e.cur = fr
					e.crashWhere = e.where()
				}
			}
			panic(r) // pathEnd or engine bug
		}
		fr.panicking = true
		fr.panic = r
		e.cur = fr
		fr.runDefers() // re-panics unless recovered
		fr.block = fr.fn.Recover
		if fr.block == nil {
			// recovered, function without named results: return zero values
			fr.result = e.zero(fr.fn.Signature.Results())
			if fr.fn.Signature.Results().Len() == 0 {
				fr.result = nil
			}
		}
	}()
	for {
		nonPhis := e.executePhis(fr)
		for _, instr := range nonPhis {
			fr.curInstr = instr
			e.steps++
			if e.steps > e.stepBudget {
				panic(pathEnd{kind: "budget", reason: fmt.Sprintf("instruction budget %d exceeded at %s", e.stepBudget, e.where())})
			}
			if e.visitInstr(fr, instr) == kReturn {
				return
			}
		}
	}
}

func (e *Engine) executePhis(fr *frame) []ssa.Instruction {
	firstNonPhi := -1
	for i, instr := range fr.block.Instrs {
		if _, ok := instr.(*ssa.Phi); !ok {
			firstNonPhi = i
			break
		}
	}
	nonPhis := fr.block.Instrs[firstNonPhi:]
	if fr.phisDone {
		fr.phisDone = false
		return nonPhis
	}
	if firstNonPhi > 0 {
		phis := fr.block.Instrs[:firstNonPhi]
		predIndex := -1
		for i, p := range fr.block.Preds {
			if p == fr.prevBlock {
				predIndex = i
				break
			}
		}
		fr.phitemps = fr.phitemps[:0]
		for _, phi := range phis {
			fr.phitemps = append(fr.phitemps, fr.get(phi.(*ssa.Phi).Edges[predIndex]))
		}
		for i, phi := range phis {
			fr.set(phi.(*ssa.Phi), fr.phitemps[i])
		}
	}
	return nonPhis
}

type continuation int

const (
	kNext continuation = iota
	kReturn
	kJump
)

func (e *Engine) asInt(v value) *Term {
	t, ok := v.(*Term)
	if !ok {
		if o, isO := v.(opaque); isO {
			e.unsupported("opaque used as int: " + o.why)
		}
		panic(fmt.Sprintf("asInt: %T", v))
	}
	return t
}

// concInt concretises an integer term (forking on feasible values).
func (e *Engine) concInt(v value, what string) int64 {
	t := e.asInt(v)
	if t.IsConst() {
		return sext64(t.Val, t.W)
	}
	return e.concretise(t, what)
}

func (e *Engine) visitInstr(fr *frame, instr ssa.Instruction) continuation {
	if e.specDepth > 0 {
		switch instr.(type) {
		case *ssa.Store, *ssa.MapUpdate, *ssa.Defer, *ssa.RunDefers, *ssa.Panic, *ssa.Go, *ssa.Send, *ssa.Select:
			panic(specAbort{"side effect"})
		}
	}
	switch instr := instr.(type) {
	case *ssa.DebugRef:
	case *ssa.UnOp:
		fr.set(instr, e.unop(instr, fr.get(instr.X)))
	case *ssa.BinOp:
		fr.set(instr, e.binop(instr.Op, instr.X.Type(), fr.get(instr.X), fr.get(instr.Y), instr.Y.Type()))
	case *ssa.Call:
		fn, args := e.prepareCall(fr, &instr.Call)
		r := e.call(fr, instr.Pos(), fn, args)
		e.cur = fr
		fr.set(instr, r)
	case *ssa.ChangeInterface:
		fr.set(instr, fr.get(instr.X))
	case *ssa.ChangeType:
		fr.set(instr, fr.get(instr.X))
	case *ssa.Convert:
		fr.set(instr, e.conv(instr.Type(), instr.X.Type(), fr.get(instr.X)))
	case *ssa.SliceToArrayPointer:
		x := fr.get(instr.X).([]value)
		n := deref(instr.Type()).Underlying().(*types.Array).Len()
		if int64(len(x)) < n {
			e.goPanic(fmt.Sprintf("runtime error: cannot convert slice with length %d to array or pointer to array with length %d", len(x), n))
		}
		if x == nil {
			fr.set(instr, (*value)(nil))
		} else {
			e.unsupported("SliceToArrayPointer of non-nil slice")
		}
	case *ssa.MakeInterface:
		fr.set(instr, iface{t: instr.X.Type(), v: fr.get(instr.X)})
	case *ssa.Extract:
		tv, ok := fr.get(instr.Tuple).(tuple)
		if !ok {
			if o, isO := fr.get(instr.Tuple).(opaque); isO {
				fr.set(instr, o)
				break
			}
			panic(fmt.Sprintf("extract from %T", fr.get(instr.Tuple)))
		}
		fr.set(instr, tv[instr.Index])
	case *ssa.Slice:
		fr.set(instr, e.slice(instr, fr.get(instr.X), fr.get(instr.Low), fr.get(instr.High), fr.get(instr.Max)))
	case *ssa.Return:
		switch len(instr.Results) {
		case 0:
		case 1:
			fr.result = fr.get(instr.Results[0])
		default:
			res := make(tuple, 0, len(instr.Results))
			for _, r := range instr.Results {
				res = append(res, fr.get(r))
			}
			fr.result = res
		}
		fr.block = nil
		return kReturn
	case *ssa.RunDefers:
		fr.runDefers()
		e.cur = fr
	case *ssa.Panic:
		panic(targetPanic{v: fr.get(instr.X), site: e.where()})
	case *ssa.Store:
		addr, ok := fr.get(instr.Addr).(*value)
		if !ok {
			e.unsupported(fmt.Sprintf("store through %T", fr.get(instr.Addr)))
		}
		e.store(addr, fr.get(instr.Val))
	case *ssa.If:
		succ := 1
		c := fr.get(instr.Cond)
		ct, ok := c.(*Term)
		if !ok {
			e.unsupported(fmt.Sprintf("branch on %T", c))
		}
		if !ct.IsConst() {
			if known, v := e.know.decide(ct); known {
				ct = e.ts.Bool(v)
			} else if e.tryIfConvert(fr, instr, ct) {
				if fr.block == nil {
					return kReturn // the whole rest of the function was merged into one result
				}
				return kJump
			}
		}
		if e.branch(ct, "if") {
			succ = 0
		}
		fr.prevBlock, fr.block = fr.block, fr.block.Succs[succ]
		return kJump
	case *ssa.Jump:
		fr.prevBlock, fr.block = fr.block, fr.block.Succs[0]
		return kJump
	case *ssa.Defer:
		fn, args := e.prepareCall(fr, &instr.Call)
		defers := &fr.defers
		if instr.DeferStack != nil {
			if into := fr.get(instr.DeferStack); into != nil {
				defers = into.(**deferred)
			}
		}
		*defers = &deferred{fn: fn, args: args, pos: instr.Pos(), tail: *defers}
	case *ssa.Go:
		e.unsupported("go statement")
	case *ssa.MakeChan:
		fr.set(instr, opaque{"chan"})
	case *ssa.Send, *ssa.Select:
		e.unsupported("channel operation")
	case *ssa.Alloc:
		addr := new(value)
		*addr = e.zero(deref(instr.Type()))
		if instr.Heap {
			fr.set(instr, addr)
		} else {
			// local: re-zero existing cell (loops re-execute Alloc)
			old := fr.get(instr).(*value)
			*old = *addr
		}
	case *ssa.MakeSlice:
		ln := e.concInt(fr.get(instr.Len), "makeslice.len")
		cp := e.concInt(fr.get(instr.Cap), "makeslice.cap")
		if ln < 0 || ln > cp || cp > 1<<24 {
			e.goPanic("runtime error: makeslice: len out of range")
		}
		s := make([]value, cp)
		tElt := instr.Type().Underlying().(*types.Slice).Elem()
		for i := range s {
			s[i] = e.zero(tElt)
		}
		fr.set(instr, s[:ln])
	case *ssa.MakeMap:
		fr.set(instr, &hmap{keyT: instr.Type().Underlying().(*types.Map).Key()})
	case *ssa.Range:
		fr.set(instr, e.rangeIter(fr.get(instr.X)))
	case *ssa.Next:
		fr.set(instr, e.iterNext(fr.get(instr.Iter).(*iterState), instr))
	case *ssa.FieldAddr:
		x, ok := fr.get(instr.X).(*value)
		if !ok {
			e.unsupported(fmt.Sprintf("FieldAddr of %T", fr.get(instr.X)))
		}
		if x == nil {
			e.goPanic("runtime error: invalid memory address or nil pointer dereference")
		}
		s, ok := (*x).(structure)
		if !ok {
			e.unsupported(fmt.Sprintf("FieldAddr into %T", *x))
		}
		fr.set(instr, &s[instr.Field])
	case *ssa.Field:
		s, ok := fr.get(instr.X).(structure)
		if !ok {
			e.unsupported(fmt.Sprintf("Field of %T", fr.get(instr.X)))
		}
		fr.set(instr, copyVal(s[instr.Field]))
	case *ssa.IndexAddr:
		x := fr.get(instr.X)
		var cells []value
		switch x := x.(type) {
		case []value:
			cells = x
		case *value:
			if x == nil {
				e.goPanic("runtime error: invalid memory address or nil pointer dereference")
			}
			cells = (*x).(array)
		default:
			e.unsupported(fmt.Sprintf("IndexAddr of %T", x))
		}
		idx := e.idx64(fr.get(instr.Index), instr.Index.Type())
		if !idx.IsConst() && len(cells) > 8 && len(cells) <= 256 && allTerms(cells) {
			if lo, hi, _ := e.know.rangeOf(idx); lo != hi {
				// symbolic index into a table of scalars: hand out a read-only snapshot cell holding the
				// selected element as an ite-chain (stores through it are refused)
				cell := new(value)
				*cell = e.symIndex(idx, cells)
				e.roCells[cell] = true
				fr.set(instr, cell)
				break
			}
		}
		i := e.indexCheck(idx, len(cells))
		fr.set(instr, &cells[i])
	case *ssa.Index:
		x := fr.get(instr.X)
		switch x := x.(type) {
		case array:
			idx := e.idx64(fr.get(instr.Index), instr.Index.Type())
			if idx.IsConst() {
				i := e.indexCheck(idx, len(x))
				fr.set(instr, copyVal(x[i]))
			} else {
				fr.set(instr, e.symIndex(idx, []value(x)))
			}
		case str:
			idx := e.idx64(fr.get(instr.Index), instr.Index.Type())
			if idx.IsConst() {
				i := e.indexCheck(idx, len(x.c))
				fr.set(instr, x.c[i])
			} else {
				cells := make([]value, len(x.c))
				for i, c := range x.c {
					cells[i] = c
				}
				fr.set(instr, e.symIndex(idx, cells))
			}
		default:
			e.unsupported(fmt.Sprintf("Index of %T", x))
		}
	case *ssa.Lookup:
		fr.set(instr, e.lookup(instr, fr.get(instr.X), fr.get(instr.Index)))
	case *ssa.MapUpdate:
		m, ok := fr.get(instr.Map).(*hmap)
		if !ok {
			e.unsupported(fmt.Sprintf("MapUpdate on %T", fr.get(instr.Map)))
		}
		e.mapUpdate(m, fr.get(instr.Key), fr.get(instr.Value))
	case *ssa.TypeAssert:
		fr.set(instr, e.typeAssert(instr, fr.get(instr.X)))
	case *ssa.MakeClosure:
		var bindings []value
		for _, b := range instr.Bindings {
			bindings = append(bindings, fr.get(b))
		}
		fr.set(instr, &closure{instr.Fn.(*ssa.Function), bindings})
	case *ssa.Phi:
		panic("unreachable phi")
	default:
		panic(fmt.Sprintf("unexpected instruction: %T", instr))
	}
	return kNext
}

func allTerms(cells []value) bool {
	for _, c := range cells {
		if _, ok := c.(*Term); !ok {
			return false
		}
	}
	return true
}

// idx64 widens an index value to 64 bits according to its static type (sign- or zero-extension).
func (e *Engine) idx64(v value, t types.Type) *Term {
	x := e.asInt(v)
	if x.W == 64 {
		return x
	}
	_, signed, _ := typeWidth(t)
	if signed {
		return e.ts.SExt(x, 64)
	}
	return e.ts.ZExt(x, 64)
}

// indexCheck checks 0 <= idx < n (forking a panic path when symbolic) and returns a concrete index.
func (e *Engine) indexCheck(idxv value, n int) int {
	idx := e.asInt(idxv)
	if idx.IsConst() {
		i := sext64(idx.Val, idx.W)
		if i < 0 || i >= int64(n) {
			e.goPanic(fmt.Sprintf("runtime error: index out of range [%d] with length %d", i, n))
		}
		return int(i)
	}
	inb := e.ts.Cmp(OpULt, idx, e.ts.Const(idx.W, uint64(n)))
	if !e.branch(inb, "bounds") {
		e.goPanic(fmt.Sprintf("runtime error: index out of range [symbolic] with length %d", n))
	}
	return int(e.concretise(idx, "index"))
}

// symIndex reads cells[idx] for symbolic idx as an ite-chain when cells are terms; otherwise concretises.
func (e *Engine) symIndex(idx *Term, cells []value) value {
	n := len(cells)
	inb := e.ts.Cmp(OpULt, idx, e.ts.Const(idx.W, uint64(n)))
	if !e.branch(inb, "bounds") {
		e.goPanic(fmt.Sprintf("runtime error: index out of range [symbolic] with length %d", n))
	}
	allTerms := n > 0 && n <= 256
	for _, c := range cells {
		if _, ok := c.(*Term); !ok {
			allTerms = false
			break
		}
	}
	if !allTerms {
		i := e.concretise(idx, "index")
		return copyVal(cells[i])
	}
	r := cells[n-1].(*Term)
	for i := n - 2; i >= 0; i-- {
		r = e.ts.Ite(e.ts.Eq(idx, e.ts.Const(idx.W, uint64(i))), cells[i].(*Term), r)
	}
	return r
}

func (e *Engine) lookup(instr *ssa.Lookup, x, idx value) value {
	switch x := x.(type) {
	case *hmap:
		v, ok := e.mapLookup(x, idx)
		if !ok {
			v = e.zero(instr.X.Type().Underlying().(*types.Map).Elem())
		}
		if instr.CommaOk {
			return tuple{v, e.ts.Bool(ok)}
		}
		return v
	case str:
		// string index via Lookup (s[i])
		it := e.idx64(idx, instr.Index.Type())
		if it.IsConst() {
			return x.c[e.indexCheck(it, len(x.c))]
		}
		cells := make([]value, len(x.c))
		for i, c := range x.c {
			cells[i] = c
		}
		return e.symIndex(it, cells)
	case opaque:
		e.unsupported("lookup in opaque: " + x.why)
	}
	panic(fmt.Sprintf("lookup in %T", x))
}

func (e *Engine) typeAssert(instr *ssa.TypeAssert, xv value) value {
	itf, ok := xv.(iface)
	if !ok {
		if o, isO := xv.(opaque); isO {
			e.unsupported("type assert on opaque: " + o.why)
		}
		panic(fmt.Sprintf("typeAssert on %T", xv))
	}
	var v value
	errMsg := ""
	if itf.t == nil {
		errMsg = fmt.Sprintf("interface conversion: interface is nil, not %s", instr.AssertedType)
	} else if idst, ok := instr.AssertedType.Underlying().(*types.Interface); ok {
		v = itf
		if !e.implements(itf.t, idst) {
			errMsg = fmt.Sprintf("interface conversion: %s is not %s: missing method", itf.t, instr.AssertedType)
		}
	} else if types.Identical(itf.t, instr.AssertedType) {
		v = copyVal(itf.v)
	} else {
		errMsg = fmt.Sprintf("interface conversion: interface is %s, not %s", itf.t, instr.AssertedType)
	}
	if errMsg != "" {
		if !instr.CommaOk {
			e.goPanic(errMsg)
		}
		return tuple{e.zero(instr.AssertedType), e.ts.False}
	}
	if instr.CommaOk {
		return tuple{v, e.ts.True}
	}
	return v
}

func (e *Engine) implements(t types.Type, it *types.Interface) bool {
	k := implKey{t, it}
	if r, ok := e.implCache[k]; ok {
		return r
	}
	r := types.Implements(t, it)
	e.implCache[k] = r
	return r
}

func pureIntrinsic(name string) bool {
	return strings.HasPrefix(name, "internal/bytealg.") || strings.HasPrefix(name, "strings.") ||
		strings.HasPrefix(name, "bytes.") || strings.HasPrefix(name, "unicode/utf8.") || name == "internal/abi.NoEscape"
}

type resolved struct {
	intr     intrinsic
	redirect *ssa.Function
}

// mangle turns "(*encoding/json.Encoder).Encode" into "encoding_json_Encoder_Encode".
func mangle(name string) string {
	var sb strings.Builder
	for _, c := range name {
		switch {
		case c >= 'a' && c <= 'z', c >= 'A' && c <= 'Z', c >= '0' && c <= '9':
			sb.WriteRune(c)
		case c == '(' || c == ')' || c == '*':
		default:
			sb.WriteByte('_')
		}
	}
	return sb.String()
}

func (e *Engine) resolve(fn *ssa.Function) *resolved {
	if r, ok := e.resolveCache[fn]; ok {
		return r
	}
	r := &resolved{}
	name := fn.String()
	if ext, ok := e.intrinsics[name]; ok {
		r.intr = ext
	} else if fn.Pkg != e.pkg || !strings.HasPrefix(fn.Name(), "verifModel_") {
		if m := e.pkg.Func("verifModel_" + mangle(name)); m != nil && m != fn {
			r.redirect = m
		}
	}
	e.resolveCache[fn] = r
	return r
}

type implKey struct {
	t  types.Type
	it *types.Interface
}

// ---- slices ---------------------------------------------------------------

func (e *Engine) slice(instr *ssa.Slice, x, lo, hi, max value) value {
	var length, capacity int
	var cells []value
	var s str
	isStr := false
	switch x := x.(type) {
	case str:
		isStr = true
		s = x
		length, capacity = len(x.c), len(x.c)
	case []value:
		cells = x
		length, capacity = len(x), cap(x)
	case *value:
		if x == nil {
			e.goPanic("runtime error: invalid memory address or nil pointer dereference")
		}
		cells = (*x).(array)
		length, capacity = len(cells), len(cells)
	default:
		e.unsupported(fmt.Sprintf("slice of %T", x))
	}
	_ = length
	l := int64(0)
	if lo != nil {
		l = e.concInt(lo, "slice.lo")
	}
	h := int64(length)
	if hi != nil {
		h = e.concInt(hi, "slice.hi")
	}
	m := int64(capacity)
	if max != nil {
		m = e.concInt(max, "slice.max")
	}
	if isStr {
		if l < 0 || h < l || h > int64(length) {
			e.goPanic(fmt.Sprintf("runtime error: slice bounds out of range [%d:%d] with length %d", l, h, length))
		}
		return str{s.c[l:h]}
	}
	if l < 0 || h < l || m < h || m > int64(capacity) {
		e.goPanic(fmt.Sprintf("runtime error: slice bounds out of range [%d:%d:%d] with capacity %d", l, h, m, capacity))
	}
	if cells == nil {
		return []value(nil)
	}
	return cells[l:h:m]
}

// ---- range ----------------------------------------------------------------

func (e *Engine) rangeIter(x value) *iterState {
	switch x := x.(type) {
	case *hmap:
		it := &iterState{m: x}
		if x != nil {
			it.keys = e.mapOrder(x)
		}
		return it
	case str:
		return &iterState{s: x, isS: true}
	case opaque:
		e.unsupported("range over opaque: " + x.why)
	}
	panic(fmt.Sprintf("cannot range over %T", x))
}

func sameKey(a, b value) bool {
	switch a := a.(type) {
	case *Term:
		return a == b.(*Term)
	case str:
		bs := b.(str)
		if len(a.c) != len(bs.c) {
			return false
		}
		for i := range a.c {
			if a.c[i] != bs.c[i] {
				return false
			}
		}
		return true
	case iface:
		bi := b.(iface)
		if a.t == nil || bi.t == nil {
			return a.t == nil && bi.t == nil
		}
		return types.Identical(a.t, bi.t) && sameKey(a.v, bi.v)
	case *value:
		return a == b.(*value)
	case structure:
		bs := b.(structure)
		for i := range a {
			if !sameKey(a[i], bs[i]) {
				return false
			}
		}
		return true
	case array:
		bs := b.(array)
		for i := range a {
			if !sameKey(a[i], bs[i]) {
				return false
			}
		}
		return true
	}
	return false
}

func (e *Engine) iterNext(it *iterState, instr *ssa.Next) value {
	if it.isS {
		if it.pos >= len(it.s.c) {
			return tuple{e.ts.False, e.ts.Const(64, 0), e.ts.Const(32, 0)}
		}
		start := it.pos
		r, size := e.decodeRune(it.s.c[it.pos:])
		it.pos += size
		return tuple{e.ts.True, e.ts.Const(64, uint64(start)), r}
	}
	for len(it.keys) > 0 {
		k := it.keys[0]
		it.keys = it.keys[1:]
		// still present?
		for j, mk := range it.m.keys {
			if sameKey(mk, k) {
				return tuple{e.ts.True, copyVal(k), copyVal(it.m.vals[j])}
			}
		}
	}
	tt := instr.Type().(*types.Tuple)
	return tuple{e.ts.False, e.zero(tt.At(1).Type()), e.zero(tt.At(2).Type())}
}

// decodeRune decodes one UTF-8 rune from cells (forking on symbolic lead bytes).
func (e *Engine) decodeRune(c []*Term) (*Term, int) {
	ts := e.ts
	b0 := c[0]
	k := func(v uint64) *Term { return ts.Const(8, v) }
	if e.branch(ts.Cmp(OpULt, b0, k(0x80)), "utf8") {
		return ts.ZExt(b0, 32), 1
	}
	bad := ts.Const(32, 0xFFFD)
	inRange := func(b *Term, lo, hi uint64) *Term {
		return ts.And(ts.Cmp(OpULe, k(lo), b), ts.Cmp(OpULe, b, k(hi)))
	}
	cont := func(i int) *Term {
		return inRange(c[i], 0x80, 0xBF)
	}
	low6 := func(i int) *Term { return ts.ZExt(ts.Bin(OpAnd, c[i], k(0x3F)), 32) }
	sh := func(t *Term, n uint64) *Term { return ts.Bin(OpShl, t, ts.Const(32, n)) }
	or := func(a, b *Term) *Term { return ts.Bin(OpOr, a, b) }
	// 2-byte
	if e.branch(inRange(b0, 0xC2, 0xDF), "utf8") {
		if len(c) < 2 || !e.branch(cont(1), "utf8") {
			return bad, 1
		}
		return or(sh(ts.ZExt(ts.Bin(OpAnd, b0, k(0x1F)), 32), 6), low6(1)), 2
	}
	if e.branch(inRange(b0, 0xE0, 0xEF), "utf8") {
		if len(c) < 3 {
			return bad, 1
		}
		// second byte range depends on b0
		lo := ts.Ite(ts.Eq(b0, k(0xE0)), k(0xA0), k(0x80))
		hi := ts.Ite(ts.Eq(b0, k(0xED)), k(0x9F), k(0xBF))
		ok := ts.And(ts.And(ts.Cmp(OpULe, lo, c[1]), ts.Cmp(OpULe, c[1], hi)), cont(2))
		if !e.branch(ok, "utf8") {
			return bad, 1
		}
		return or(or(sh(ts.ZExt(ts.Bin(OpAnd, b0, k(0x0F)), 32), 12), sh(low6(1), 6)), low6(2)), 3
	}
	if e.branch(inRange(b0, 0xF0, 0xF4), "utf8") {
		if len(c) < 4 {
			return bad, 1
		}
		lo := ts.Ite(ts.Eq(b0, k(0xF0)), k(0x90), k(0x80))
		hi := ts.Ite(ts.Eq(b0, k(0xF4)), k(0x8F), k(0xBF))
		ok := ts.And(ts.And(ts.And(ts.Cmp(OpULe, lo, c[1]), ts.Cmp(OpULe, c[1], hi)), cont(2)), cont(3))
		if !e.branch(ok, "utf8") {
			return bad, 1
		}
		return or(or(or(sh(ts.ZExt(ts.Bin(OpAnd, b0, k(0x07)), 32), 18), sh(low6(1), 12)), sh(low6(2), 6)), low6(3)), 4
	}
	return bad, 1
}

// ---- builtins -------------------------------------------------------------

func (e *Engine) callBuiltin(caller *frame, fn *ssa.Builtin, args []value) value {
	switch fn.Name() {
	case "append":
		if len(args) == 1 {
			return args[0]
		}
		dst, ok := args[0].([]value)
		if !ok {
			e.unsupported(fmt.Sprintf("append to %T", args[0]))
		}
		var src []value
		switch s := args[1].(type) {
		case str:
			src = make([]value, len(s.c))
			for i, c := range s.c {
				src[i] = c
			}
		case []value:
			src = s
		default:
			e.unsupported(fmt.Sprintf("append of %T", args[1]))
		}
		if len(src) == 0 {
			return dst
		}
		return e.appendCells(dst, src)
	case "copy":
		dst, ok := args[0].([]value)
		if !ok {
			e.unsupported(fmt.Sprintf("copy to %T", args[0]))
		}
		var src []value
		switch s := args[1].(type) {
		case str:
			src = make([]value, len(s.c))
			for i, c := range s.c {
				src[i] = c
			}
		case []value:
			src = s
		}
		n := len(dst)
		if len(src) < n {
			n = len(src)
		}
		e.copyCells(dst, src, n)
		return e.ts.Const(64, uint64(n))
	case "delete":
		m, ok := args[0].(*hmap)
		if !ok {
			e.unsupported(fmt.Sprintf("delete on %T", args[0]))
		}
		e.mapDelete(m, args[1])
		return nil
	case "clear":
		switch x := args[0].(type) {
		case *hmap:
			if x != nil {
				e.journalMap(x)
				x.keys, x.vals = nil, nil
			}
		case []value:
			e.unsupported("clear of slice")
		}
		return nil
	case "print", "println":
		return nil
	case "len":
		switch x := args[0].(type) {
		case str:
			return e.ts.Const(64, uint64(len(x.c)))
		case array:
			return e.ts.Const(64, uint64(len(x)))
		case *value:
			return e.ts.Const(64, uint64(len((*x).(array))))
		case []value:
			return e.ts.Const(64, uint64(len(x)))
		case *hmap:
			if x == nil {
				return e.ts.Const(64, 0)
			}
			return e.ts.Const(64, uint64(e.mapLen(x)))
		case opaque:
			e.unsupported("len of opaque: " + x.why)
		}
		panic(fmt.Sprintf("len: %T", args[0]))
	case "cap":
		switch x := args[0].(type) {
		case array:
			return e.ts.Const(64, uint64(len(x)))
		case *value:
			return e.ts.Const(64, uint64(len((*x).(array))))
		case []value:
			return e.ts.Const(64, uint64(cap(x)))
		}
		panic(fmt.Sprintf("cap: %T", args[0]))
	case "min", "max":
		r := args[0]
		for _, a := range args[1:] {
			t := fn.Type().(*types.Signature).Params().At(0).Type()
			var lt *Term
			if fn.Name() == "min" {
				lt = e.less(t, a, r)
			} else {
				lt = e.less(t, r, a)
			}
			switch rv := r.(type) {
			case *Term:
				r = e.ts.Ite(lt, a.(*Term), rv)
			default:
				if e.branch(lt, "minmax") {
					r = a
				}
			}
		}
		return r
	case "panic":
		panic(targetPanic{v: args[0], site: e.where()})
	case "recover":
		return e.doRecover(caller)
	case "ssa:wrapnilchk":
		recv := args[0]
		if p, ok := recv.(*value); ok && p == nil {
			e.goPanic("value method called using nil pointer")
		}
		return recv
	case "ssa:deferstack":
		return &caller.defers
	}
	e.unsupported("unknown built-in: " + fn.Name())
	return nil
}

// mapLen: with symbolic keys distinct entries might be equal; entries are kept distinct by mapFind forks.
func (e *Engine) mapLen(m *hmap) int { return len(m.keys) }

func (e *Engine) less(t types.Type, a, b value) *Term {
	switch a := a.(type) {
	case *Term:
		_, signed, _ := typeWidth(t)
		if signed {
			return e.ts.Cmp(OpSLt, a, b.(*Term))
		}
		return e.ts.Cmp(OpULt, a, b.(*Term))
	case str:
		return e.strLess(a, b.(str))
	case float64:
		return e.ts.Bool(a < b.(float64))
	}
	e.unsupported(fmt.Sprintf("less on %T", a))
	return nil
}

// appendCells implements append with Go's aliasing: in-capacity appends write into the shared array.
func (e *Engine) appendCells(dst, src []value) []value {
	n := len(dst) + len(src)
	if n <= cap(dst) {
		out := dst[:n]
		for i, v := range src {
			e.setCell(&out[len(dst)+i], copyVal(v))
		}
		return out
	}
	newCap := cap(dst) * 2
	if newCap < n {
		newCap = n
	}
	if newCap < 8 {
		newCap = 8
	}
	out := make([]value, n, newCap)
	copy(out, dst)
	for i, v := range src {
		out[len(dst)+i] = copyVal(v)
	}
	// zero-fill spare capacity lazily: cells beyond len are nil until resliced; fill with zero of elem on demand
	if len(out) > 0 {
		z := zeroLike(out[0], e)
		full := out[:newCap]
		for i := n; i < newCap; i++ {
			full[i] = z
		}
	}
	return out
}

// zeroLike produces a zero value with the same shape as v (for spare capacity cells).
func zeroLike(v value, e *Engine) value {
	switch v := v.(type) {
	case *Term:
		return e.ts.Const(v.W, 0)
	case str:
		return str{}
	case float64:
		return float64(0)
	case *value:
		return (*value)(nil)
	case []value:
		return []value(nil)
	case *hmap:
		return (*hmap)(nil)
	case iface:
		return iface{}
	case structure:
		c := make(structure, len(v))
		for i := range v {
			c[i] = zeroLike(v[i], e)
		}
		return c
	case array:
		c := make(array, len(v))
		for i := range v {
			c[i] = zeroLike(v[i], e)
		}
		return c
	case *closure:
		return (*ssa.Function)(nil)
	case *ssa.Function:
		return (*ssa.Function)(nil)
	}
	return v
}

func (e *Engine) copyCells(dst, src []value, n int) {
	if n == 0 {
		return
	}
	// handle overlap like memmove
	tmp := make([]value, n)
	for i := 0; i < n; i++ {
		tmp[i] = copyVal(src[i])
	}
	for i := 0; i < n; i++ {
		e.setCell(&dst[i], tmp[i])
	}
}

func (e *Engine) doRecover(caller *frame) value {
	if caller != nil && !caller.panicking && caller.caller != nil && caller.caller.panicking {
		caller.caller.panicking = false
		p := caller.caller.panic
		caller.caller.panic = nil
		if tp, ok := p.(targetPanic); ok {
			return tp.v
		}
		panic(fmt.Sprintf("unexpected panic type %T in recover", p))
	}
	return iface{}
}

// ---- unop / binop / conv --------------------------------------------------

func (e *Engine) unop(instr *ssa.UnOp, x value) value {
	switch instr.Op {
	case token.ARROW:
		e.unsupported("channel receive")
	case token.SUB:
		switch x := x.(type) {
		case *Term:
			return e.ts.Un(OpNeg, x)
		case float64:
			return -x
		}
	case token.MUL:
		p, ok := x.(*value)
		if !ok {
			if o, isO := x.(opaque); isO {
				e.unsupported("deref of opaque: " + o.why)
			}
			if up, isU := x.(unsafePtr); isU {
				if pp, ok2 := up.v.(*value); ok2 {
					return e.load(pp)
				}
			}
			e.unsupported(fmt.Sprintf("load through %T", x))
		}
		return e.load(p)
	case token.NOT:
		return e.ts.Not(x.(*Term))
	case token.XOR:
		return e.ts.Un(OpBVNot, x.(*Term))
	}
	e.unsupported(fmt.Sprintf("unop %s on %T", instr.Op, x))
	return nil
}

func (e *Engine) binop(op token.Token, t types.Type, x, y value, yt types.Type) value {
	if ox, ok := x.(opaque); ok {
		return ox
	}
	if oy, ok := y.(opaque); ok {
		return oy
	}
	switch op {
	case token.EQL:
		return e.equals(t, x, y)
	case token.NEQ:
		return e.ts.Not(e.equals(t, x, y))
	}
	switch xv := x.(type) {
	case *Term:
		yv, okt := y.(*Term)
		if !okt {
			e.unsupported("integer/float mixed operation")
		}
		_, signed, _ := typeWidth(t)
		ts := e.ts
		switch op {
		case token.ADD:
			return ts.Bin(OpAdd, xv, yv)
		case token.SUB:
			return ts.Bin(OpSub, xv, yv)
		case token.MUL:
			return ts.Bin(OpMul, xv, yv)
		case token.QUO, token.REM:
			if yv.IsConst() {
				if yv.Val == 0 {
					e.goPanic("runtime error: integer divide by zero")
				}
			} else if e.branch(ts.Eq(yv, ts.Const(yv.W, 0)), "divzero") {
				e.goPanic("runtime error: integer divide by zero")
			}
			e.arithUsed = true
			switch {
			case op == token.QUO && signed:
				return ts.Bin(OpSDiv, xv, yv)
			case op == token.QUO:
				return ts.Bin(OpUDiv, xv, yv)
			case signed:
				return ts.Bin(OpSRem, xv, yv)
			default:
				return ts.Bin(OpURem, xv, yv)
			}
		case token.AND:
			if xv.W == 0 {
				return ts.And(xv, yv)
			}
			return ts.Bin(OpAnd, xv, yv)
		case token.OR:
			if xv.W == 0 {
				return ts.Or(xv, yv)
			}
			return ts.Bin(OpOr, xv, yv)
		case token.XOR:
			return ts.Bin(OpXor, xv, yv)
		case token.AND_NOT:
			return ts.Bin(OpAnd, xv, ts.Un(OpBVNot, yv))
		case token.SHL, token.SHR:
			return e.shift(op, signed, xv, yv, yt)
		case token.LSS:
			if signed {
				return ts.Cmp(OpSLt, xv, yv)
			}
			return ts.Cmp(OpULt, xv, yv)
		case token.LEQ:
			if signed {
				return ts.Cmp(OpSLe, xv, yv)
			}
			return ts.Cmp(OpULe, xv, yv)
		case token.GTR:
			if signed {
				return ts.Cmp(OpSLt, yv, xv)
			}
			return ts.Cmp(OpULt, yv, xv)
		case token.GEQ:
			if signed {
				return ts.Cmp(OpSLe, yv, xv)
			}
			return ts.Cmp(OpULe, yv, xv)
		}
	case str:
		yv := y.(str)
		switch op {
		case token.ADD:
			c := make([]*Term, 0, len(xv.c)+len(yv.c))
			c = append(c, xv.c...)
			c = append(c, yv.c...)
			return str{c}
		case token.LSS:
			return e.strLess(xv, yv)
		case token.LEQ:
			return e.ts.Not(e.strLess(yv, xv))
		case token.GTR:
			return e.strLess(yv, xv)
		case token.GEQ:
			return e.ts.Not(e.strLess(xv, yv))
		}
	case float64:
		yv, okf := y.(float64)
		if !okf {
			e.unsupported("floating point arithmetic on a symbolic value")
		}
		switch op {
		case token.ADD:
			return xv + yv
		case token.SUB:
			return xv - yv
		case token.MUL:
			return xv * yv
		case token.QUO:
			return xv / yv
		case token.LSS:
			return e.ts.Bool(xv < yv)
		case token.LEQ:
			return e.ts.Bool(xv <= yv)
		case token.GTR:
			return e.ts.Bool(xv > yv)
		case token.GEQ:
			return e.ts.Bool(xv >= yv)
		}
	}
	e.unsupported(fmt.Sprintf("binop %s on %T, %T", op, x, y))
	return nil
}

func (e *Engine) shift(op token.Token, signed bool, x, y *Term, yt types.Type) *Term {
	ts := e.ts
	if _, ysigned, _ := typeWidth(yt); ysigned {
		neg := ts.Cmp(OpSLt, y, ts.Const(y.W, 0))
		if !neg.IsFalse() && e.branch(neg, "negshift") {
			e.goPanic("runtime error: negative shift amount")
		}
	}
	w := x.W
	var amt *Term
	var tooBig *Term = ts.False
	switch {
	case y.W == w:
		amt = y
	case y.W < w:
		amt = ts.ZExt(y, w)
	default:
		tooBig = ts.Cmp(OpULe, ts.Const(y.W, uint64(w)), y)
		amt = ts.Extract(y, w-1, 0)
	}
	var r *Term
	switch {
	case op == token.SHL:
		r = ts.Bin(OpShl, x, amt)
	case signed:
		r = ts.Bin(OpAShr, x, amt)
	default:
		r = ts.Bin(OpLShr, x, amt)
	}
	if !tooBig.IsFalse() {
		var big *Term
		if op == token.SHR && signed {
			big = ts.Bin(OpAShr, x, ts.Const(w, uint64(w-1)))
		} else {
			big = ts.Const(w, 0)
		}
		r = ts.Ite(tooBig, big, r)
	}
	return r
}

func (e *Engine) conv(tDst, tSrc types.Type, x value) value {
	if o, ok := x.(opaque); ok {
		return o
	}
	utSrc := tSrc.Underlying()
	utDst := tDst.Underlying()
	// pointer <-> unsafe.Pointer
	if b, ok := utDst.(*types.Basic); ok && b.Kind() == types.UnsafePointer {
		switch x := x.(type) {
		case unsafePtr:
			return x
		case *value:
			return unsafePtr{x}
		case *Term:
			return unsafePtr{x} // uintptr -> unsafe.Pointer
		}
		return unsafePtr{x}
	}
	if b, ok := utSrc.(*types.Basic); ok && b.Kind() == types.UnsafePointer {
		up, _ := x.(unsafePtr)
		switch utDst.(type) {
		case *types.Pointer:
			if up.v == nil {
				return (*value)(nil)
			}
			if p, ok := up.v.(*value); ok {
				return p
			}
			e.unsupported("unsafe.Pointer -> pointer of non-pointer payload")
		case *types.Basic: // uintptr
			if up.v == nil {
				return e.ts.Const(64, 0)
			}
			e.unsupported("unsafe.Pointer -> uintptr")
		}
	}
	switch ut := utDst.(type) {
	case *types.Pointer, *types.Struct, *types.Array, *types.Map, *types.Signature, *types.Interface:
		return x
	case *types.Slice:
		// string -> []byte / []rune
		if s, ok := x.(str); ok {
			eb, _ := ut.Elem().Underlying().(*types.Basic)
			if eb != nil && eb.Kind() == types.Uint8 {
				out := make([]value, len(s.c))
				for i, c := range s.c {
					out[i] = c
				}
				return out
			}
			// []rune
			var out []value
			for pos := 0; pos < len(s.c); {
				r, n := e.decodeRune(s.c[pos:])
				out = append(out, r)
				pos += n
			}
			if out == nil {
				out = []value{}
			}
			return out
		}
		return x
	case *types.Basic:
		if ut.Info()&types.IsString != 0 {
			switch x := x.(type) {
			case str:
				return x
			case []value:
				// []byte or []rune -> string
				eb := utSrc.(*types.Slice).Elem().Underlying().(*types.Basic)
				if eb.Kind() == types.Uint8 {
					c := make([]*Term, len(x))
					for i, v := range x {
						c[i] = v.(*Term)
					}
					return str{c}
				}
				var c []*Term
				for _, v := range x {
					c = append(c, e.encodeRune(v.(*Term))...)
				}
				return str{c}
			case *Term:
				// integer -> string (rune)
				w := x
				if w.W < 32 {
					w = e.ts.ZExt(w, 32)
				} else if w.W > 32 {
					// out of range -> U+FFFD; treat via range check
					small := e.ts.Cmp(OpULt, w, e.ts.Const(w.W, 0x110000))
					if !e.branch(small, "rune") {
						return e.mkstr("�")
					}
					w = e.ts.Extract(w, 31, 0)
				}
				return str{e.encodeRune(w)}
			}
		}
		if ut.Info()&types.IsFloat != 0 {
			switch x := x.(type) {
			case float64:
				if ut.Kind() == types.Float32 {
					return float64(float32(x))
				}
				return x
			case *Term:
				if x.IsConst() {
					_, signed, _ := typeWidth(tSrc)
					var f float64
					if signed {
						f = float64(sext64(x.Val, x.W))
					} else {
						f = float64(x.Val)
					}
					if ut.Kind() == types.Float32 {
						f = float64(float32(f))
					}
					return f
				}
				if e.specDepth > 0 {
					panic(specAbort{"float"})
				}
				panic(pathEnd{kind: "outside", reason: "floating point on symbolic values (REST X-Server-Timeout, float parameters) is outside the encoding"})
			}
		}
		if w, _, ok := typeWidth(ut); ok && w > 0 {
			switch x := x.(type) {
			case *Term:
				_, ssigned, _ := typeWidth(tSrc)
				if x.W == w {
					return x
				}
				if x.W > w {
					return e.ts.Extract(x, w-1, 0)
				}
				if ssigned {
					return e.ts.SExt(x, w)
				}
				return e.ts.ZExt(x, w)
			case float64:
				_, dsigned, _ := typeWidth(ut)
				if math.IsNaN(x) || math.IsInf(x, 0) {
					return e.ts.Const(w, 1<<63)
				}
				if dsigned {
					return e.ts.Const(w, uint64(int64(x)))
				}
				return e.ts.Const(w, uint64(x))
			}
		}
	}
	e.unsupported(fmt.Sprintf("conv %s -> %s (%T)", tSrc, tDst, x))
	return nil
}

// encodeRune returns UTF-8 cells for rune r (32-bit term), forking on length class when symbolic.
func (e *Engine) encodeRune(r *Term) []*Term {
	ts := e.ts
	k32 := func(v uint64) *Term { return ts.Const(32, v) }
	b := func(t *Term) *Term { return ts.Extract(t, 7, 0) }
	shr := func(t *Term, n uint64) *Term { return ts.Bin(OpLShr, t, k32(n)) }
	and := func(t *Term, m uint64) *Term { return ts.Bin(OpAnd, t, k32(m)) }
	or := func(t *Term, m uint64) *Term { return ts.Bin(OpOr, t, k32(m)) }
	if e.branch(ts.Cmp(OpULt, r, k32(0x80)), "rune") {
		return []*Term{b(r)}
	}
	if e.branch(ts.Cmp(OpULt, r, k32(0x800)), "rune") {
		return []*Term{b(or(shr(r, 6), 0xC0)), b(or(and(r, 0x3F), 0x80))}
	}
	surrogate := ts.And(ts.Cmp(OpULe, k32(0xD800), r), ts.Cmp(OpULe, r, k32(0xDFFF)))
	if e.branch(ts.Or(surrogate, ts.Cmp(OpULt, k32(0x10FFFF), r)), "rune") {
		return []*Term{ts.Const(8, 0xEF), ts.Const(8, 0xBF), ts.Const(8, 0xBD)}
	}
	if e.branch(ts.Cmp(OpULt, r, k32(0x10000)), "rune") {
		return []*Term{b(or(shr(r, 12), 0xE0)), b(or(and(shr(r, 6), 0x3F), 0x80)), b(or(and(r, 0x3F), 0x80))}
	}
	return []*Term{b(or(shr(r, 18), 0xF0)), b(or(and(shr(r, 12), 0x3F), 0x80)), b(or(and(shr(r, 6), 0x3F), 0x80)), b(or(and(r, 0x3F), 0x80))}
}
