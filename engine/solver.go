package main

import (
	"bufio"
	"fmt"
	"io"
	"os"
	"os/exec"
	"strconv"
	"strings"
	"time"
)

type SatResult int

const (
	Unsat SatResult = iota
	Sat
	Unknown
)

func (r SatResult) String() string {
	return [...]string{"unsat", "sat", "unknown"}[r]
}

type solverSpec struct {
	name string
	argv []string
	pre  []string // commands sent at start
	// per-query timeout command (ms -> command), "" if set on argv
	timeoutCmd func(ms int) string
	intMode    bool // LIA encoding (intenc.go)
}

func solverSpecs(perQueryMs int) map[string]solverSpec {
	return map[string]solverSpec{
		"z3new": {name: "z3new", argv: []string{"z3-new", "-in"},
			pre: []string{"(set-option :global-declarations true)", "(set-option :produce-models true)",
				fmt.Sprintf("(set-option :timeout %d)", perQueryMs)}},
		"z3": {name: "z3", argv: []string{"z3", "-in"},
			pre: []string{"(set-option :global-declarations true)", "(set-option :produce-models true)",
				fmt.Sprintf("(set-option :timeout %d)", perQueryMs)}},
		"cvc5": {name: "cvc5", argv: []string{"cvc5", "--incremental", "--produce-models",
			fmt.Sprintf("--tlimit-per=%d", perQueryMs)},
			pre: []string{"(set-option :global-declarations true)", "(set-logic QF_BV)"}},
		"z3lia": {name: "z3lia", intMode: true, argv: []string{"z3-new", "-in"},
			pre: []string{"(set-option :global-declarations true)", "(set-option :produce-models true)",
				fmt.Sprintf("(set-option :timeout %d)", perQueryMs)}},
		"cvc5lia": {name: "cvc5lia", intMode: true, argv: []string{"cvc5", "--incremental", "--produce-models",
			fmt.Sprintf("--tlimit-per=%d", perQueryMs)},
			pre: []string{"(set-option :global-declarations true)", "(set-logic QF_NIA)"}},
		"cvc5int": {name: "cvc5int", argv: []string{"cvc5", "--incremental", "--produce-models", "--solve-bv-as-int=sum",
			fmt.Sprintf("--tlimit-per=%d", perQueryMs)},
			pre: []string{"(set-option :global-declarations true)", "(set-logic QF_BV)"}},
	}
}

// SolverProc is one long-lived solver process with an assertion stack that mirrors a
// prefix of the engine's path condition.
type SolverProc struct {
	spec    solverSpec
	cmd     *exec.Cmd
	in      *bufio.Writer
	inRaw   io.WriteCloser
	out     *bufio.Reader
	defined map[int32]bool
	nonlin  map[int32]bool // intMode: term (transitively) has no arithmetic reading
	stack   []*Term
	hardMs  int
	dead    bool
	// statistics
	Queries  int
	Sats     int
	Unsats   int
	Unknowns int
	Errors   int
	Restarts int
	Time     time.Duration
	logW     io.Writer
}

func StartSolver(spec solverSpec, hardMs int) (*SolverProc, error) {
	s := &SolverProc{spec: spec, hardMs: hardMs}
	if d := os.Getenv("VSYM_SMTLOG"); d != "" {
		f, _ := os.Create(fmt.Sprintf("%s/%s-%d.smt2", d, spec.name, time.Now().UnixNano()))
		s.logW = f
	}
	if err := s.start(); err != nil {
		return nil, err
	}
	return s, nil
}

func (s *SolverProc) start() error {
	cmd := exec.Command(s.spec.argv[0], s.spec.argv[1:]...)
	in, err := cmd.StdinPipe()
	if err != nil {
		return err
	}
	out, err := cmd.StdoutPipe()
	if err != nil {
		return err
	}
	cmd.Stderr = cmd.Stdout
	if err := cmd.Start(); err != nil {
		return err
	}
	s.cmd = cmd
	s.inRaw = in
	s.in = bufio.NewWriterSize(in, 1<<16)
	s.out = bufio.NewReaderSize(out, 1<<16)
	s.defined = make(map[int32]bool)
	s.nonlin = make(map[int32]bool)
	s.stack = nil
	s.dead = false
	for _, c := range s.spec.pre {
		s.send(c)
	}
	return nil
}

func (s *SolverProc) Close() {
	if s.cmd != nil && s.cmd.Process != nil {
		_ = s.inRaw.Close()
		_ = s.cmd.Process.Kill()
		_, _ = s.cmd.Process.Wait()
	}
	s.dead = true
}

func (s *SolverProc) restart() {
	s.Close()
	s.Restarts++
	if err := s.start(); err != nil {
		s.dead = true
	}
}

func (s *SolverProc) send(line string) {
	if s.logW != nil {
		fmt.Fprintln(s.logW, line)
	}
	s.in.WriteString(line)
	s.in.WriteByte('\n')
}

// define emits declarations/definitions for t's DAG (iteratively, post-order).
func (s *SolverProc) define(t *Term) {
	if t.Op == OpConst || s.defined[t.ID] {
		return
	}
	type item struct {
		t    *Term
		done bool
	}
	st := []item{{t, false}}
	for len(st) > 0 {
		it := st[len(st)-1]
		st = st[:len(st)-1]
		if it.t.Op == OpConst || s.defined[it.t.ID] {
			continue
		}
		if it.t.Op == OpVar {
			if s.spec.intMode {
				s.declareIntVar(it.t)
				continue
			}
			s.send(fmt.Sprintf("(declare-const |%s| %s)", it.t.Name, sortOf(it.t)))
			s.defined[it.t.ID] = true
			continue
		}
		if it.done {
			if s.spec.intMode {
				body, ok := intBody(it.t)
				for _, a := range it.t.A {
					if a != nil && s.nonlin[a.ID] {
						ok = false
					}
				}
				if !ok {
					s.nonlin[it.t.ID] = true
					// keep the solver's view well-formed: an unconstrained stand-in (never asserted: queries touching it are refused)
					s.send(fmt.Sprintf("(declare-const i%d %s)", it.t.ID, intSort(it.t)))
				} else {
					s.send(fmt.Sprintf("(define-fun i%d () %s %s)", it.t.ID, intSort(it.t), body))
				}
				s.defined[it.t.ID] = true
				continue
			}
			s.send(fmt.Sprintf("(define-fun t%d () %s %s)", it.t.ID, sortOf(it.t), termBody(it.t)))
			s.defined[it.t.ID] = true
			continue
		}
		st = append(st, item{it.t, true})
		for _, a := range it.t.A {
			if a != nil && a.Op != OpConst && !s.defined[a.ID] {
				st = append(st, item{a, false})
			}
		}
	}
}

// declareIntVar declares an Int variable with its range at the base level of the assertion stack.
func (s *SolverProc) declareIntVar(t *Term) {
	saved := s.stack
	if n := len(s.stack); n > 0 {
		s.send(fmt.Sprintf("(pop %d)", n))
		s.stack = nil
	}
	if t.W == 0 {
		s.send(fmt.Sprintf("(declare-const |%s| Bool)", t.Name))
	} else {
		s.send(fmt.Sprintf("(declare-const |%s| Int)", t.Name))
		s.send(fmt.Sprintf("(assert (and (<= 0 |%s|) (< |%s| %s)))", t.Name, t.Name, pow2(t.W)))
	}
	s.defined[t.ID] = true
	for _, a := range saved {
		s.send("(push 1)")
		s.send("(assert " + s.ref(a) + ")")
		s.stack = append(s.stack, a)
	}
}

func (s *SolverProc) ref(t *Term) string {
	if s.spec.intMode {
		return intRef(t)
	}
	return termRef(t)
}

// sync makes the solver's assertion stack equal to pc.
func (s *SolverProc) sync(pc []*Term) {
	common := 0
	for common < len(pc) && common < len(s.stack) && pc[common] == s.stack[common] {
		common++
	}
	if n := len(s.stack) - common; n > 0 {
		s.send(fmt.Sprintf("(pop %d)", n))
		s.stack = s.stack[:common]
	}
	for _, t := range pc[common:] {
		s.define(t)
		s.send("(push 1)")
		s.send("(assert " + s.ref(t) + ")")
		s.stack = append(s.stack, t)
	}
}

type lineResult struct {
	line string
	err  error
}

// readLine reads one line with a hard timeout (kills solver on timeout).
func (s *SolverProc) readLine() (string, bool) {
	ch := make(chan lineResult, 1)
	go func() {
		l, err := s.out.ReadString('\n')
		ch <- lineResult{l, err}
	}()
	select {
	case r := <-ch:
		if r.err != nil {
			return "", false
		}
		return strings.TrimSpace(r.line), true
	case <-time.After(time.Duration(s.hardMs) * time.Millisecond):
		return "", false
	}
}

// readSexp reads a balanced s-expression (possibly multi-line).
func (s *SolverProc) readSexp() (string, bool) {
	var sb strings.Builder
	depth := 0
	started := false
	for {
		l, ok := s.readLine()
		if !ok {
			return "", false
		}
		inBar := false
		for _, c := range l {
			switch {
			case c == '|':
				inBar = !inBar
			case inBar:
			case c == '(':
				depth++
				started = true
			case c == ')':
				depth--
			}
		}
		sb.WriteString(l)
		sb.WriteByte(' ')
		if started && depth <= 0 {
			return sb.String(), true
		}
		if !started && l != "" {
			return sb.String(), true
		}
	}
}

// Check decides pc ∧ extra. If wantModel and sat, values of vars are returned.
func (s *SolverProc) Check(pc []*Term, extra *Term, vars []*Term, wantModel bool) (SatResult, *Model) {
	if s.dead {
		s.restart()
		if s.dead {
			return Unknown, nil
		}
	}
	t0 := time.Now()
	defer func() { s.Time += time.Since(t0) }()
	s.Queries++
	if s.spec.intMode {
		// define first: variable declarations re-base the stack
		for _, t := range pc {
			s.define(t)
		}
		if extra != nil {
			s.define(extra)
		}
		bad := extra != nil && s.nonlin[extra.ID]
		for _, t := range pc {
			if s.nonlin[t.ID] {
				bad = true
			}
		}
		if bad {
			s.Queries--
			return Unknown, nil
		}
	}
	s.sync(pc)
	if extra != nil {
		s.define(extra)
		s.send("(push 1)")
		s.send("(assert " + s.ref(extra) + ")")
	}
	s.send("(check-sat)")
	if err := s.in.Flush(); err != nil {
		s.restart()
		s.Unknowns++
		return Unknown, nil
	}
	var res SatResult
	for {
		l, ok := s.readLine()
		if !ok {
			s.restart()
			s.Unknowns++
			return Unknown, nil
		}
		if l == "" {
			continue
		}
		if strings.HasPrefix(l, "(error") {
			s.Errors++
			// drain: the solver may continue; safest is to restart.
			s.restart()
			s.Unknowns++
			return Unknown, nil
		}
		switch l {
		case "sat":
			res = Sat
		case "unsat":
			res = Unsat
		case "unknown", "timeout":
			res = Unknown
		default:
			continue // warnings etc.
		}
		break
	}
	var model *Model
	if res == Sat && wantModel {
		model = NewModel()
		var live []*Term
		for _, v := range vars {
			if s.defined[v.ID] {
				live = append(live, v)
			}
		}
		for i := 0; i < len(live); i += 200 {
			j := i + 200
			if j > len(live) {
				j = len(live)
			}
			var sb strings.Builder
			sb.WriteString("(get-value (")
			for _, v := range live[i:j] {
				sb.WriteString(s.ref(v))
				sb.WriteByte(' ')
			}
			sb.WriteString("))")
			s.send(sb.String())
			s.in.Flush()
			resp, ok := s.readSexp()
			if !ok || strings.HasPrefix(strings.TrimSpace(resp), "(error") {
				s.Errors++
				s.restart()
				s.Unknowns++
				return Unknown, nil
			}
			if !parseValues(resp, live[i:j], model) {
				s.Errors++
				s.restart()
				s.Unknowns++
				return Unknown, nil
			}
		}
	}
	if extra != nil {
		s.send("(pop 1)")
	}
	switch res {
	case Sat:
		s.Sats++
	case Unsat:
		s.Unsats++
	default:
		s.Unknowns++
	}
	return res, model
}

// parseValues parses "((|a| #x01) (|b| true) ...)" in order of vars.
func parseValues(resp string, vars []*Term, m *Model) bool {
	// tokenise
	var toks []string
	i := 0
	for i < len(resp) {
		c := resp[i]
		switch {
		case c == '(' || c == ')':
			toks = append(toks, string(c))
			i++
		case c == ' ' || c == '\n' || c == '\t' || c == '\r':
			i++
		case c == '|':
			j := strings.IndexByte(resp[i+1:], '|')
			if j < 0 {
				return false
			}
			toks = append(toks, resp[i:i+j+2])
			i += j + 2
		default:
			j := i
			for j < len(resp) && !strings.ContainsRune("() \n\t\r", rune(resp[j])) {
				j++
			}
			toks = append(toks, resp[i:j])
			i = j
		}
	}
	// expected shape: ( ( name value ) ( name value ) ... ) where value is atom or (_ bvN W)
	p := 0
	if p >= len(toks) || toks[p] != "(" {
		return false
	}
	p++
	for _, v := range vars {
		if p >= len(toks) || toks[p] != "(" {
			return false
		}
		p++
		p++ // name
		if p >= len(toks) {
			return false
		}
		var val uint64
		tok := toks[p]
		switch {
		case tok == "true":
			val = 1
		case tok == "false":
			val = 0
		case strings.HasPrefix(tok, "#x"):
			u, err := strconv.ParseUint(tok[2:], 16, 64)
			if err != nil {
				return false
			}
			val = u
		case strings.HasPrefix(tok, "#b"):
			u, err := strconv.ParseUint(tok[2:], 2, 64)
			if err != nil {
				return false
			}
			val = u
		case tok == "(" && p+1 < len(toks) && toks[p+1] == "-":
			u, np, ok := parseIntValue(toks, p)
			if !ok {
				return false
			}
			val = u
			p = np - 1
		case tok[0] >= '0' && tok[0] <= '9':
			u, _, ok := parseIntValue(toks, p)
			if !ok {
				return false
			}
			val = u
		case tok == "(":
			// (_ bvN W)
			if p+3 >= len(toks) || toks[p+1] != "_" || !strings.HasPrefix(toks[p+2], "bv") {
				return false
			}
			u, err := strconv.ParseUint(toks[p+2][2:], 10, 64)
			if err != nil {
				return false
			}
			val = u
			p += 4 // ( _ bvN W )
			if p >= len(toks) || toks[p] != ")" {
				return false
			}
			// p now at ')' of value; fallthrough to consume below
		default:
			return false
		}
		p++
		if p >= len(toks) || toks[p] != ")" {
			return false
		}
		p++
		m.vals[v.ID] = val
	}
	return true
}

// SolverSet tries a chain of solvers until one decides.
type SolverSet struct {
	names        []string
	procs        []*SolverProc
	perMs        int
	hardMs       int
	specs        map[string]solverSpec
	CrossN       int // cross-checked queries
	CrossBad     int
	Retries      int
	RetryDecided int
}

func NewSolverSet(names []string, perQueryMs int) *SolverSet {
	return &SolverSet{names: names, procs: make([]*SolverProc, len(names)), perMs: perQueryMs,
		hardMs: perQueryMs*2 + 5000, specs: solverSpecs(perQueryMs)}
}

func (ss *SolverSet) proc(i int) *SolverProc {
	if ss.procs[i] == nil {
		p, err := StartSolver(ss.specs[ss.names[i]], ss.hardMs)
		if err != nil {
			return nil
		}
		ss.procs[i] = p
	}
	return ss.procs[i]
}

func (ss *SolverSet) Check(pc []*Term, extra *Term, vars []*Term, wantModel bool) (SatResult, *Model, string) {
	r, m, by := ss.checkOnce(pc, extra, vars, wantModel)
	if r != Unknown {
		return r, m, by
	}
	// every back end gave up within its per-query limit (possibly because the machine is busy): one more
	// attempt with fresh processes and four times the limit before the obligation counts as undecided
	ss.Retries++
	retry := NewSolverSet(ss.names, ss.perMs*4)
	defer retry.Close()
	r, m, by = retry.checkOnce(pc, extra, vars, wantModel)
	if r != Unknown {
		ss.RetryDecided++
	}
	return r, m, by
}

func (ss *SolverSet) checkOnce(pc []*Term, extra *Term, vars []*Term, wantModel bool) (SatResult, *Model, string) {
	for i := range ss.names {
		p := ss.proc(i)
		if p == nil {
			continue
		}
		t0 := time.Now()
		r, m := p.Check(pc, extra, vars, wantModel)
		if d := time.Since(t0); d > 2*time.Second && os.Getenv("VSYM_SLOW") != "" {
			ex := ""
			if extra != nil {
				ex = extra.String()
			}
			fmt.Fprintf(os.Stderr, "SLOW %s %.1fs %s pc=%d extra=%s\n", ss.names[i], d.Seconds(), r, len(pc), ex)
		}
		if r != Unknown {
			return r, m, ss.names[i]
		}
	}
	return Unknown, nil, ""
}

// CrossCheck re-asks a decided query of the next solver in the chain; returns false on disagreement.
func (ss *SolverSet) CrossCheck(pc []*Term, extra *Term, expect SatResult, decidedBy string) bool {
	for i, n := range ss.names {
		if n == decidedBy {
			continue
		}
		p := ss.proc(i)
		if p == nil {
			continue
		}
		r, _ := p.Check(pc, extra, nil, false)
		if r == Unknown {
			continue
		}
		ss.CrossN++
		if r != expect {
			ss.CrossBad++
			return false
		}
		return true
	}
	return true
}

func (ss *SolverSet) Close() {
	for _, p := range ss.procs {
		if p != nil {
			p.Close()
		}
	}
}

func (ss *SolverSet) Stats() map[string]map[string]any {
	out := map[string]map[string]any{}
	for i, p := range ss.procs {
		if p == nil {
			continue
		}
		out[ss.names[i]] = map[string]any{"queries": p.Queries, "sat": p.Sats, "unsat": p.Unsats,
			"unknown": p.Unknowns, "errors": p.Errors, "restarts": p.Restarts, "time_s": p.Time.Seconds()}
	}
	return out
}
