package vanguard

import (
	"errors"

	"google.golang.org/genproto/googleapis/rpc/status"
	"google.golang.org/protobuf/types/known/anypb"
)

// Model of proto.Marshal / proto.Unmarshal for google.rpc.Status (the one message the gRPC protocol code
// serialises itself: grpc-status-details-bin). Real protobuf wire format for the fields the transcoder uses:
// code (1, varint), message (2, length-delimited), details (3, repeated Any{type_url 1, value 2}). Lengths and
// codes above 127 (multi-byte varints) and unknown fields end the path as a recorded cut.

var errStatusWire = errors.New("proto: cannot parse invalid wire-format data")

func pbAppendLen(b []byte, field byte, data []byte) []byte {
	if len(data) > 127 {
		verifOutside("status field longer than 127 bytes (outside the proto model)")
	}
	b = append(b, field<<3|2, byte(len(data)))
	return append(b, data...)
}

func statusMarshal(st *status.Status) []byte {
	var b []byte
	if st.Code != 0 {
		if st.Code < 0 || st.Code > 127 {
			verifOutside("status code above 127 (outside the proto model)")
		}
		b = append(b, 1<<3, byte(st.Code))
	}
	if st.Message != "" {
		b = pbAppendLen(b, 2, []byte(st.Message))
	}
	for _, d := range st.Details {
		var a []byte
		if d.TypeUrl != "" {
			a = pbAppendLen(a, 1, []byte(d.TypeUrl))
		}
		if len(d.Value) > 0 {
			a = pbAppendLen(a, 2, d.Value)
		}
		b = pbAppendLen(b, 3, a)
	}
	return b
}

// pbNext reads one field: (number, wire type, varint value or bytes).
func pbNext(b []byte) (field byte, wt byte, v uint64, data []byte, rest []byte, ok bool) {
	if len(b) < 2 || b[0] >= 0x80 {
		return 0, 0, 0, nil, nil, false
	}
	field, wt = b[0]>>3, b[0]&7
	switch wt {
	case 0:
		if b[1] >= 0x80 {
			verifOutside("multi-byte varint (outside the proto model)")
		}
		return field, wt, uint64(b[1]), nil, b[2:], true
	case 2:
		if b[1] >= 0x80 {
			verifOutside("multi-byte length (outside the proto model)")
		}
		n := int(b[1])
		if len(b)-2 < n {
			return 0, 0, 0, nil, nil, false
		}
		return field, wt, 0, b[2 : 2+n], b[2+n:], true
	}
	verifOutside("wire type outside the proto model")
	return 0, 0, 0, nil, nil, false
}

func statusUnmarshal(b []byte, st *status.Status) error {
	for len(b) > 0 {
		field, wt, v, data, rest, ok := pbNext(b)
		if !ok {
			return errStatusWire
		}
		b = rest
		switch {
		case field == 1 && wt == 0:
			st.Code = int32(v)
		case field == 2 && wt == 2:
			st.Message = string(data)
		case field == 3 && wt == 2:
			a := &anypb.Any{}
			for len(data) > 0 {
				f2, w2, _, d2, r2, ok := pbNext(data)
				if !ok {
					return errStatusWire
				}
				data = r2
				switch {
				case f2 == 1 && w2 == 2:
					a.TypeUrl = string(d2)
				case f2 == 2 && w2 == 2:
					a.Value = append([]byte(nil), d2...)
				default:
					verifOutside("unknown field in Any (outside the proto model)")
				}
			}
			st.Details = append(st.Details, a)
		default:
			verifOutside("unknown field in Status (outside the proto model)")
		}
	}
	return nil
}
