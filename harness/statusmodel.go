package vanguard

import (
	"errors"

	"google.golang.org/genproto/googleapis/api/httpbody"
	"google.golang.org/genproto/googleapis/rpc/status"
	"google.golang.org/protobuf/proto"
	"google.golang.org/protobuf/types/known/anypb"
)

// Model of proto.Marshal / proto.Unmarshal for google.rpc.Status (the one message the gRPC protocol code
// serialises itself: grpc-status-details-bin). Real protobuf wire format for the fields the transcoder uses:
// code (1, varint), message (2, length-delimited), details (3, repeated Any{type_url 1, value 2}). Lengths and
// codes above 127 (multi-byte varints) and unknown fields end the path as a recorded cut.

var errStatusWire = errors.New("proto: cannot parse invalid wire-format data")

func pbAppendLen(b []byte, field byte, data []byte) []byte {
	if len(data) > 127 {
		verifOutside("status field longer than 127 bytes (outside the proto model)")
	}
	b = append(b, field<<3|2, byte(len(data)))
	return append(b, data...)
}

func statusMarshal(st *status.Status) []byte {
	var b []byte
	if st.Code != 0 {
		if st.Code < 0 || st.Code > 127 {
			verifOutside("status code above 127 (outside the proto model)")
		}
		b = append(b, 1<<3, byte(st.Code))
	}
	if st.Message != "" {
		b = pbAppendLen(b, 2, []byte(st.Message))
	}
	for _, d := range st.Details {
		var a []byte
		if d.TypeUrl != "" {
			a = pbAppendLen(a, 1, []byte(d.TypeUrl))
		}
		if len(d.Value) > 0 {
			a = pbAppendLen(a, 2, d.Value)
		}
		b = pbAppendLen(b, 3, a)
	}
	return b
}

// pbNext reads one field: (number, wire type, varint value or bytes).
func pbNext(b []byte) (field byte, wt byte, v uint64, data []byte, rest []byte, ok bool) {
	if len(b) < 2 || b[0] >= 0x80 {
		return 0, 0, 0, nil, nil, false
	}
	field, wt = b[0]>>3, b[0]&7
	switch wt {
	case 0:
		if b[1] >= 0x80 {
			verifOutside("multi-byte varint (outside the proto model)")
		}
		return field, wt, uint64(b[1]), nil, b[2:], true
	case 2:
		if b[1] >= 0x80 {
			verifOutside("multi-byte length (outside the proto model)")
		}
		n := int(b[1])
		if len(b)-2 < n {
			return 0, 0, 0, nil, nil, false
		}
		return field, wt, 0, b[2 : 2+n], b[2+n:], true
	}
	verifOutside("wire type outside the proto model")
	return 0, 0, 0, nil, nil, false
}

func statusUnmarshal(b []byte, st *status.Status) error {
	for len(b) > 0 {
		field, wt, v, data, rest, ok := pbNext(b)
		if !ok {
			return errStatusWire
		}
		b = rest
		switch {
		case field == 1 && wt == 0:
			st.Code = int32(v)
		case field == 2 && wt == 2:
			st.Message = string(data)
		case field == 3 && wt == 2:
			a := &anypb.Any{}
			for len(data) > 0 {
				f2, w2, _, d2, r2, ok := pbNext(data)
				if !ok {
					return errStatusWire
				}
				data = r2
				switch {
				case f2 == 1 && w2 == 2:
					a.TypeUrl = string(d2)
				case f2 == 2 && w2 == 2:
					a.Value = append([]byte(nil), d2...)
				default:
					verifOutside("unknown field in Any (outside the proto model)")
				}
			}
			st.Details = append(st.Details, a)
		default:
			verifOutside("unknown field in Status (outside the proto model)")
		}
	}
	return nil
}

// Model of protojson.Unmarshal into google.rpc.Status (what a REST backend's error body is parsed with): the
// canonical documents {} | {"code":N} | {"message":"text"} | {"code":N,"message":"text"} with N of one or two
// digits and text free of quotes, backslashes and control characters. A body that does not start an object is
// not JSON for a message (error, as protojson reports); every other document ends the path as a recorded cut.
var errStatusJSON = errors.New("proto: syntax error: unexpected token")

func statusJSONUnmarshal(b []byte, st *status.Status) error {
	if len(b) == 0 || b[0] != '{' {
		for _, c := range b {
			if c == ' ' || c == '\t' || c == '\n' || c == '\r' {
				verifOutside("REST error body with leading whitespace (outside the protojson model)")
			}
			break
		}
		return errStatusJSON
	}
	st.Code, st.Message, st.Details = 0, "", nil
	rest := b[1:]
	const kCode, kMsg = `"code":`, `"message":"`
	if len(rest) >= len(kCode) && string(rest[:len(kCode)]) == kCode {
		rest = rest[len(kCode):]
		n, digits := int32(0), 0
		for len(rest) > 0 && rest[0] >= '0' && rest[0] <= '9' && digits < 2 {
			n = n*10 + int32(rest[0]-'0')
			rest = rest[1:]
			digits++
		}
		if digits == 0 {
			verifOutside("REST error body: code not a short number (outside the protojson model)")
		}
		st.Code = n
		if len(rest) > 0 && rest[0] == ',' {
			rest = rest[1:]
			if len(rest) < len(kMsg) || string(rest[:len(kMsg)]) != kMsg {
				verifOutside("REST error body: key other than message after code (outside the protojson model)")
			}
		}
	}
	if len(rest) >= len(kMsg) && string(rest[:len(kMsg)]) == kMsg {
		rest = rest[len(kMsg):]
		i := 0
		for i < len(rest) && rest[i] != '"' {
			if rest[i] == '\\' || rest[i] < 0x20 || rest[i] >= 0x7f {
				verifOutside("REST error body: message needing JSON escapes (outside the protojson model)")
			}
			i++
		}
		if i == len(rest) {
			verifOutside("REST error body: unterminated string (outside the protojson model)")
		}
		st.Message = string(rest[:i])
		rest = rest[i+1:]
	}
	if len(rest) != 1 || rest[0] != '}' {
		verifOutside("REST error body outside the canonical documents of the protojson model")
	}
	return nil
}

// Model of anypb.New for google.api.HttpBody (how a non-JSON REST error page is kept as an error detail).
func verifModel_google_golang_org_protobuf_types_known_anypb_New(src proto.Message) (*anypb.Any, error) {
	hb, ok := src.(*httpbody.HttpBody)
	if !ok {
		verifOutside("anypb.New (protobuf reflection) is outside the encoding")
	}
	var v []byte
	if hb.ContentType != "" {
		v = pbAppendLen(v, 1, []byte(hb.ContentType))
	}
	if len(hb.Data) > 0 {
		v = pbAppendLen(v, 2, hb.Data)
	}
	return &anypb.Any{TypeUrl: "type.googleapis.com/google.api.HttpBody", Value: v}, nil
}
