package vanguard

import (
	"errors"

	"google.golang.org/protobuf/reflect/protoreflect"
	"google.golang.org/protobuf/reflect/protoregistry"
)

// fakeDynType stands for dynamicpb.NewMessageType's result in the symbolic run (it only records the descriptor).
type fakeDynType struct {
	protoreflect.MessageType
	desc protoreflect.MessageDescriptor
}

func (t *fakeDynType) Descriptor() protoreflect.MessageDescriptor { return t.desc }

func verifModel_google_golang_org_protobuf_types_dynamicpb_NewMessageType(desc protoreflect.MessageDescriptor) protoreflect.MessageType {
	return &fakeDynType{desc: desc}
}

// hC20Fallback: fallbackResolver tries resolvers in order: first success wins, all NotFound => NotFound,
// otherwise the last error.
func hC20Fallback() {
	k := verifChoose("resolvers", 3) + 1
	var fr fallbackResolver
	modes := make([]int, k)
	resolvers := make([]*fakeResolver, k)
	for i := 0; i < k; i++ {
		modes[i] = verifChoose("mode", 3)
		resolvers[i] = &fakeResolver{mode: modes[i]}
		fr = append(fr, resolvers[i])
	}
	// all four lookups of a TypeResolver go through the same fallback rule, each by its own key
	var found bool
	var err error
	var asked string
	lookup := verifChoose("lookup", 4)
	switch lookup {
	case 0:
		var mt protoreflect.MessageType
		mt, err = fr.FindMessageByName("p.M")
		found, asked = mt != nil, "p.M"
	case 1:
		var mt protoreflect.MessageType
		mt, err = fr.FindMessageByURL("type.googleapis.com/p.M")
		found, asked = mt != nil, "url:type.googleapis.com/p.M"
		if mt != nil {
			verifAssert(string(mt.Descriptor().FullName()) == "by-url:type.googleapis.com/p.M", "C20: a lookup by URL is answered by the delegates' lookup by URL, with the URL as given")
		}
	case 2:
		var xt protoreflect.ExtensionType
		xt, err = fr.FindExtensionByName("p.ext")
		found, asked = xt != nil, "ext:p.ext"
	default:
		var xt protoreflect.ExtensionType
		xt, err = fr.FindExtensionByNumber("p.M", 7)
		found, asked = xt != nil, "extnum:p.M"
	}
	firstOK := -1
	for i, m := range modes {
		if m == 0 && firstOK < 0 {
			firstOK = i
		}
	}
	verifObsBool("found", err == nil)
	if firstOK >= 0 {
		verifReach("some-resolver-knows")
		verifAssert(err == nil && found, "C20: the first resolver that knows the type wins")
		for i, r := range resolvers {
			if i <= firstOK {
				verifAssert(len(r.seen) == 1 && r.seen[0] == asked, "C20: resolvers are asked in order until one succeeds, by the same kind of lookup and key")
			} else {
				verifAssert(len(r.seen) == 0, "C20: later resolvers are not asked after a success")
			}
		}
		return
	}
	verifReach("no-resolver-knows")
	verifAssert(err != nil && !found, "C20: unknown everywhere is an error")
	if modes[k-1] == 1 {
		verifAssert(errors.Is(err, protoregistry.NotFound), "C20: the last resolver's NotFound is reported")
	} else {
		verifAssert(err == errFakeResolver, "C20: the last resolver's error is reported")
	}
}

// hC20Register: when the service's resolver does not know a method's request or response type the
// transcoder falls back to a dynamic message of exactly that descriptor instead of failing; other
// resolver errors fail the registration.
func hC20Register() {
	svc := newFakeService("p.S")
	m := svc.addMethod("Get", fkUnary, 0, false)
	mode := verifChoose("resolver", 3)
	res := &fakeResolver{mode: mode}
	cfg := baseFakeConfig()
	service := &Service{schema: svc, handler: nopHandler(), opts: []ServiceOption{WithTypeResolver(res), WithTargetProtocols(ProtocolGRPC), WithTargetCodecs(CodecProto)}}
	tr, err := NewTranscoder([]*Service{service}, toyCodecOption(CodecProto, false, cfg), toyCodecOption(CodecJSON, true, cfg))
	verifObsBool("accepted", err == nil)
	switch mode {
	case 2:
		verifReach("resolver-fails")
		verifAssert(err != nil, "C20: a resolver failure other than NotFound fails the registration")
	case 1:
		verifReach("resolver-does-not-know")
		verifAssert(err == nil, "C20: an unknown type falls back to a dynamic message instead of failing")
		if err == nil {
			mc := tr.methods[methodPath(m)]
			verifAssert(mc.requestType != nil && mc.requestType.Descriptor() == m.Input(), "C20: dynamic request type is built from the method's input descriptor")
			verifAssert(mc.responseType != nil && mc.responseType.Descriptor() == m.Output(), "C20: dynamic response type is built from the method's output descriptor")
		}
	default:
		verifReach("resolver-knows")
		verifAssert(err == nil, "C20: known types register")
		if err == nil {
			mc := tr.methods[methodPath(m)]
			verifAssert(string(mc.requestType.Descriptor().FullName()) == string(m.Input().FullName()), "C20: resolver's request type is used")
		}
	}
}

// hC20Global: the generated (global) Go types are used for a service only when its descriptor is the very
// file registered in protoregistry.GlobalFiles and every request/response type resolves in GlobalTypes; a
// schema that was loaded another way (another descriptor instance under the same path, an unknown path, no
// parent file, types not registered) gets types built from its own descriptor instead. All 32 registry
// situations; the native twin builds each with real descriptors in the real registries.
func hC20Global() {
	fileNil := verifNondetBool("fileNil")
	registered := verifNondetBool("pathRegistered")
	sameFile := verifNondetBool("sameFileInstance")
	reqKnown := verifNondetBool("requestTypeRegistered")
	respKnown := verifNondetBool("responseTypeRegistered")
	svc := c20Schema(fileNil, registered, sameFile, reqKnown, respKnown)
	got := canUseGlobalTypes(svc)
	verifObsBool("canUseGlobalTypes", got)
	verifReach("decided")
	want := !fileNil && registered && sameFile && reqKnown && respKnown
	verifAssert(got == want, "C20: global Go types are used only for the very file registered globally with all its types; every other load of a schema resolves types from its own descriptor")
}
