package vanguard

import (
	"bytes"
	"net/http"
	"net/url"
	"strconv"

	"google.golang.org/genproto/googleapis/api/annotations"
)

// symbolicStream: n symbolic bytes laid out as frames would be (flag, 4 length bytes, payload...),
// with the three high length bytes assumed zero and the low one < 16 so that lengths stay
// enumerable (the full 2^32 range of the length field is decided in hEnvelopeDecode).
func symbolicStream(name string, n int) []byte {
	b := nondetBytes(name, n)
	// positions of length bytes depend on earlier lengths; constrain conservatively every byte that
	// can be a length byte under some parse: we walk the stream with the actual (symbolic) lengths
	// concretised by the harness itself.
	pos := 0
	for pos < n {
		// flag at pos, length at pos+1..pos+4
		for i := 1; i <= 3 && pos+i < n; i++ {
			verifAssume(b[pos+i] == 0)
		}
		if pos+4 >= n {
			break
		}
		verifAssume(b[pos+4] < 16)
		l := verifConcretize(int(b[pos+4]))
		pos += 5 + l
	}
	return b
}

type c09Backend struct {
	pipeBackend
}

// a well-behaved backend: fails the RPC when its read of the request failed or it cannot parse what it read.
func (b *c09Backend) ServeHTTP(w http.ResponseWriter, r *http.Request) {
	b.pipeBackend.script = nil
	b.pipeBackend.ServeHTTP(w, r)
	s := &respScript{}
	declared := b.rec.header.Get("Grpc-Encoding") != "" || b.rec.header.Get("Connect-Content-Encoding") != ""
	_, understood := refParseBackendBody(b.target, b.unary, b.codec, declared, b.rec.body)
	if b.rec.readErr != nil || !understood {
		s.errCode = 3
		s.errMsg = "bad"
	}
	b.pipeBackend.script = s
	b.skipRead = true
	b.rec.calls--
	b.pipeBackend.ServeHTTP(w, r)
}

func c09Cfg() (*pipeCfg, bool) {
	cfg := &pipeCfg{maxMsg: 64, kind: fkBidi} // above every length the symbolic streams can state (limit behaviour: C10)
	cfg.client = verifChoose("client", 2)     // gRPC, gRPC-Web (Connect streaming clients: see hC09ReqConnect)
	cfg.svcProtos = []Protocol{pipeProtocols[verifChoose("target", 3)]}
	cfg.clientCodec = CodecProto
	if verifChoose("diffCodec", 2) == 1 {
		cfg.svcCodecs = []string{CodecJSON}
	} else {
		cfg.svcCodecs = []string{CodecProto}
	}
	cfg.clientComp = verifChoose("clientComp", 2) == 1
	cfg.svcComp = cfg.clientComp && verifChoose("svcComp", 2) == 1
	if pipeIsPassThrough(cfg) {
		return nil, false
	}
	return cfg, true
}

// refClientFrames: complete, valid client frames (flags in {0,1}; 1 only with declared compression; payload decodable).
func refClientStream(cfg *pipeCfg, b []byte) (msgs [][]byte, wellFormed bool, grey bool) {
	frames, complete := refSplitFrames(b)
	wellFormed = complete
	for _, f := range frames {
		if f.flags != 0 && f.flags != 1 {
			return msgs, false, grey
		}
		if f.flags == 1 && !cfg.clientComp {
			// compressed flag without a declared compression: whether this must be rejected or may be
			// read as an uncompressed message is left open (grey zone, nothing asserted)
			return msgs, false, true
		}
		m, ok := refDecodeMsg(cfg.clientCodec, f.flags == 1, f.payload)
		if !ok {
			return msgs, false, grey
		}
		if len(f.payload) > int(cfg.maxMsg) {
			return msgs, false, grey
		}
		msgs = append(msgs, m)
	}
	return msgs, wellFormed, grey
}

// hC09Req: arbitrary (truncated / malformed / well-formed) client streams.
func hC09Req() {
	cfg, ok := c09Cfg()
	if !ok {
		return
	}
	maxN := 6
	if verifTier() == 1 {
		maxN = 8
	}
	n := verifChoose("streamLen", maxN+1)
	stream := symbolicStream("wire", n)
	p := newPipe(cfg)
	if !p.buildOK {
		return
	}
	target, codec, comp := refNegotiate(cfg)
	wb := &c09Backend{pipeBackend: *p.backend}
	if verifTier() == 1 {
		wb.bufSize = []int{1, 3, 16}[verifChoose("bufsize", 3)]
	} else {
		wb.bufSize = []int{3, 16}[verifChoose("bufsize", 2)] // 1-byte reads: C08 and the thorough tier
	}
	p.tr.methods[pipePath].handler = wb
	p.body.failEnd = verifChoose("transportError", 2) == 1
	p.req = buildClientRequest(cfg, nil, p.body)
	p.body.data = stream
	p.tr.ServeHTTP(p.sink, p.req)

	sent, wellFormed, grey := refClientStream(cfg, stream)
	out := refParseClientResponse(cfg, p.sink, wb.rec.calls > 0)
	verifObsInt("calls", int64(wb.rec.calls))
	verifObsBytes("backend-body", wb.rec.body)
	verifObsInt("client-code", int64(out.code))
	verifObsStr("oracle-why", out.why)
	verifObsInt("status", int64(p.sink.status))
	verifObsBytes("client-body", p.sink.body)
	verifReach("served")
	verifAssert(out.valid, "C09: the client gets a terminated, well-formed response")
	verifAssert(!out.dupStatus, "C09: no second terminal status after the transcoder ended the RPC")
	if grey {
		verifReach("grey-compressed-flag-without-declaration")
		return
	}
	if wb.rec.calls > 0 {
		// every complete message the backend could decode was completely sent by the client
		got, _ := refParseBackendPrefix(target, codec, comp, wb.rec.body)
		clientFrames, _ := refSplitFrames(stream) // frames the client sent completely (valid or not)
		verifAssert(len(got) <= len(clientFrames), "C09: backend is never handed a complete message the client did not finish")
		verifAssert(len(got) <= len(sent), "C02: every complete message handed to the backend is a valid message of the client's stream (no frame with invalid flags is passed on as data)")
		for i := range got {
			if i < len(sent) {
				verifAssert(bytesEq(got[i], sent[i]), "C09: messages handed to the backend are the client's")
			}
		}
		if out.valid && out.code == 0 && !p.body.failEnd {
			clientComplete := len(clientFrames)
			if _, whole := refSplitFrames(stream); !whole {
				clientComplete++ // the client started one more message than it finished
			}
			verifAssert(len(got) == clientComplete, "C01: an RPC reported successful delivered every message the client sent, none dropped")
		}
	}
	if !wellFormed || p.body.failEnd {
		verifReach("faulty-stream")
		if out.valid {
			verifAssert(out.code != 0, "C09: a truncated or malformed request stream never surfaces as success")
		}
	} else {
		verifReach("clean-stream")
		if out.valid {
			verifAssert(out.code == 0, "C09: a well-formed stream is not rejected")
		}
	}
}

// refParseBackendPrefix: the complete, decodable messages at the front of what the backend read.
func refParseBackendPrefix(target Protocol, codec string, comp bool, body []byte) ([][]byte, bool) {
	frames, complete := refSplitFrames(body)
	var msgs [][]byte
	for _, f := range frames {
		if f.flags != 0 && f.flags != 1 {
			return msgs, false
		}
		m, ok := refDecodeMsg(codec, f.flags == 1, f.payload)
		if !ok {
			return msgs, false
		}
		msgs = append(msgs, m)
	}
	return msgs, complete
}

// hC09Resp: arbitrary backend response bytes (every cut, every flag byte, symbolic lengths) followed by a
// valid, missing or truncated end of stream. A faulty response never surfaces as success; a well-formed
// one is delivered intact; the client always gets a terminated, valid response.
func hC09Resp() {
	cfg := &pipeCfg{maxMsg: 64, kind: fkBidi, clientCodec: CodecProto, svcCodecs: []string{CodecProto}}
	cfg.client = []int{cfGRPC, cfGRPCWeb, cfConnectStream}[verifChoose("client", 3)]
	cfg.svcProtos = []Protocol{pipeProtocols[verifChoose("target", 3)]}
	if verifChoose("diffCodec", 2) == 1 {
		cfg.svcCodecs = []string{CodecJSON}
	}
	if pipeIsPassThrough(cfg) {
		return
	}
	p := newPipe(cfg)
	if !p.buildOK {
		return
	}
	target, codec, _ := refNegotiate(cfg)
	maxN := 5
	if verifTier() == 1 {
		maxN = 7
	}
	// either arbitrary bytes up to the bound, or one frame announcing a 7-byte message cut at every offset
	// (concrete bytes, only the cut point varies: cuts that leave exactly an envelope's length outstanding etc.)
	structured := verifChoose("structured", 2) == 1
	n := 0
	if !structured {
		n = verifChoose("streamLen", maxN+1)
	}
	data := symbolicStream("wire", n)
	if structured {
		whole := appendFrame(nil, 0, encodeMsg(codec, wireMsg{abstract: []byte("abcdefg")}))
		data = whole[:verifChoose("cutAt", len(whole)+1)]
	}
	endMode := verifChoose("end", 4) // 0 valid end, 1 no end at all, 2 truncated end, 3 valid end followed by stray bytes in the same Write
	stray := []byte(nil)
	if endMode == 3 {
		if target == ProtocolGRPC {
			return
		}
		stray = nondetBytes("stray", verifChoose("strayLen", 2)+1)
	}
	var endFrame []byte
	switch target {
	case ProtocolGRPCWeb:
		endFrame = appendFrame(nil, 0x80, []byte("grpc-status: 0\r\n"))
	case ProtocolConnect:
		endFrame = appendFrame(nil, 2, []byte("{}"))
	}
	if endMode == 2 && len(endFrame) > 0 {
		endFrame = endFrame[:verifChoose("endCut", len(endFrame)-1)+1]
	}
	p.tr.methods[pipePath].handler = http.HandlerFunc(func(w http.ResponseWriter, r *http.Request) {
		readAllSized(r.Body, 16, 100)
		w.Header().Set("Content-Type", p.backendContentType())
		w.WriteHeader(200)
		if len(data) > 3 {
			w.Write(data[:3])
			w.Write(data[3:])
		} else {
			w.Write(data)
		}
		if target == ProtocolGRPC {
			if endMode == 0 {
				w.Header().Set(http.TrailerPrefix+"Grpc-Status", "0")
			}
			return
		}
		if endMode == 3 {
			w.Write(append(append([]byte(nil), endFrame...), stray...))
		} else if endMode != 1 {
			w.Write(endFrame)
		}
	})
	p.serve([]wireMsg{{abstract: []byte{'q'}}})
	out := refParseClientResponse(cfg, p.sink, true)
	// reference: what a client of the backend's protocol would make of the bytes actually written
	full := append([]byte(nil), data...)
	if target != ProtocolGRPC && endMode != 1 {
		full = append(full, endFrame...)
	}
	if endMode == 3 {
		// bytes after the end of the stream: the response before them decides the outcome; what must hold
		// here is that nothing crashes and the client still gets one well-formed outcome
		out := refParseClientResponse(cfg, p.sink, true)
		dframes, dcomplete := refSplitFrames(data)
		plain := dcomplete
		for _, f := range dframes {
			plain = plain && f.flags == 0
		}
		verifReach("stray-bytes-after-end")
		if plain {
			verifAssert(out.valid, "C09: bytes after the end of the stream do not corrupt the response")
		}
		return
	}
	frames, complete := refSplitFrames(full)
	endFlag := byte(0xff)
	switch target {
	case ProtocolGRPCWeb:
		endFlag = 0x80
	case ProtocolConnect:
		endFlag = 2
	}
	wellFormed := complete
	grey := false
	sawEnd := false
	var sent [][]byte
	for i, f := range frames {
		switch {
		case f.flags == 0 && !sawEnd:
			m, ok := refDecodeMsg(codec, false, f.payload)
			if !ok {
				wellFormed = false
			} else {
				sent = append(sent, m)
			}
		case f.flags == endFlag && !sawEnd && i == len(frames)-1 && endMode == 0 && len(frames) > 0:
			sawEnd = true
			// the end frame must be the one we appended (symbolic bytes imitating an end frame are grey)
			if len(full)-len(endFrame) != len(full)-5-len(f.payload) {
				grey = true
			}
		case f.flags == 1 || f.flags == 0x81 || f.flags == 3 || f.flags == endFlag:
			grey = true // compressed flag without declaration / end-like frame made of symbolic bytes: not asserted
			wellFormed = false
		default:
			wellFormed = false
		}
	}
	if target == ProtocolGRPC {
		wellFormed = wellFormed && endMode == 0
	} else {
		wellFormed = wellFormed && sawEnd
	}
	verifObsInt("client-code", int64(out.code))
	verifObsStr("resp-oracle-why", out.why)
	verifObsStr("resp-grpc-status-trailer", p.sink.trailers().Get("Grpc-Status"))
	verifObsStr("resp-grpc-status-header", p.sink.headSnap.Get("Grpc-Status"))
	verifObsInt("resp-msgs", int64(len(out.msgs)))
	verifObsInt("resp-status", int64(p.sink.status))
	verifObsBytes("client-body-on-success", func() []byte {
		if out.valid && out.code == 0 {
			return p.sink.body
		}
		return nil
	}())
	verifReach("served")
	if grey {
		verifReach("grey-response-bytes")
		return
	}
	if !complete && !out.valid {
		// the backend stopped inside a message whose envelope had already been forwarded: a streaming
		// re-framer can only cut the stream; the client then sees a truncated frame (and, for gRPC, an
		// error status in the trailers)
		verifReach("truncated-frame-forwarded")
		if cfg.client == cfGRPC {
			st := p.sink.trailers().Get("Grpc-Status")
			verifAssert(st != "" && st != "0", "C09: a truncated response ends with an error status")
		}
		return
	}
	verifAssert(out.valid, "C09: the client gets a terminated, well-formed response")
	if !out.valid {
		return
	}
	if wellFormed {
		verifReach("clean-response")
		verifAssert(out.code == 0, "C09: a well-formed response is not turned into an error")
		verifAssert(len(out.msgs) == len(sent), "C09: every response message is delivered")
		for i := range out.msgs {
			if i < len(sent) {
				verifAssert(bytesEq(out.msgs[i], sent[i]), "C09: response messages are delivered intact")
			}
		}
	} else {
		verifReach("faulty-response")
		verifAssert(out.code != 0, "C09: a truncated or malformed response never surfaces as success")
		verifAssert(len(out.msgs) <= len(frames), "C09: no message is fabricated from partial data")
	}
}

// hC09UnaryCut: unary responses between an enveloped and an un-enveloped side, same codec (pure re-framing):
// the backend announces a 7-byte message - by its envelope (gRPC backend) or by Content-Length (Connect unary
// backend) -, claims success, but delivers only the first k bytes, for every k. The client must never see a
// success: a truncated message is not a message.
func hC09UnaryCut() {
	cfg := &pipeCfg{maxMsg: 64, kind: fkUnary, clientCodec: CodecProto, svcCodecs: []string{CodecProto}}
	pairing := verifChoose("pairing", 4)
	switch pairing {
	case 0:
		cfg.client, cfg.svcProtos = cfGRPC, []Protocol{ProtocolConnect}
	case 1:
		cfg.client, cfg.svcProtos = cfGRPCWeb, []Protocol{ProtocolConnect}
	case 2:
		cfg.client, cfg.svcProtos = cfConnectUnary, []Protocol{ProtocolGRPC}
	default:
		cfg.client, cfg.svcProtos = cfConnectStream, []Protocol{ProtocolGRPC}
		cfg.kind = fkBidi
	}
	if verifChoose("otherCodec", 2) == 1 {
		// the response is decoded and re-encoded instead of only re-framed
		cfg.svcCodecs = []string{CodecJSON}
	}
	p := newPipe(cfg)
	if !p.buildOK {
		return
	}
	target, codec, _ := refNegotiate(cfg)
	payload := encodeMsg(codec, wireMsg{abstract: []byte("abcdefg")})
	whole := payload
	if target == ProtocolGRPC {
		whole = appendFrame(nil, 0, payload)
	}
	// delivered: the first k bytes of what was announced, or (backends that announce by Content-Length) all of it
	// plus 1, 5 or 6 bytes more than announced
	announced := len(whole)
	nDelivered := announced + 1
	if target == ProtocolConnect {
		nDelivered += 3
	}
	cut := verifChoose("delivered", nDelivered)
	if target == ProtocolConnect && cut == announced && verifChoose("declaresMore", 2) == 1 {
		// a complete, decodable message - but the backend had declared two bytes more
		announced += 2
	}
	if cut > announced {
		extra := []int{1, 5, 6}[cut-announced-1]
		whole = append(append([]byte{}, whole...), bytes.Repeat([]byte{0}, extra)...)
		cut = len(whole)
	}
	p.tr.methods[pipePath].handler = http.HandlerFunc(func(w http.ResponseWriter, r *http.Request) {
		readAllSized(r.Body, 16, 100)
		w.Header().Set("Content-Type", p.backendContentType())
		if target == ProtocolConnect {
			w.Header().Set("Content-Length", strconv.Itoa(announced))
		}
		w.WriteHeader(200)
		if cut > 3 {
			w.Write(whole[:3])
			w.Write(whole[3:cut])
		} else {
			w.Write(whole[:cut])
		}
		if target == ProtocolGRPC {
			w.Header().Set(http.TrailerPrefix+"Grpc-Status", "0")
		}
	})
	p.serve([]wireMsg{{abstract: []byte{'q'}}})
	out := refParseClientResponse(cfg, p.sink, true)
	verifObsInt("client-code", int64(out.code))
	verifObsInt("status", int64(p.sink.status))
	verifObsStr("grpc-status-trailer", p.sink.trailers().Get("Grpc-Status"))
	verifReach("unary-response-cut")
	if cut > announced {
		verifReach("unary-response-longer-than-announced")
		verifAssert(!(out.valid && out.code == 0), "C09: a unary response longer than its declared Content-Length never surfaces as success")
		return
	}
	if cut == announced {
		verifReach("unary-response-complete")
		verifAssert(out.valid && out.code == 0 && len(out.msgs) == 1 && bytesEq(out.msgs[0], []byte("abcdefg")), "C09: a complete unary response is delivered intact")
		return
	}
	if cut == 0 && target == ProtocolGRPC {
		// no envelope was sent: an OK status without the one response message a unary method has. The client
		// (Connect unary here, or any client without envelopes) would be handed an empty body as that message.
		verifReach("nothing-announced")
		if cfg.kind != fkUnary {
			return // a stream without any response message is a legitimate success
		}
	}
	success := out.valid && out.code == 0
	verifAssert(!success, "C09: a unary response cut short of its announced length never surfaces as success")
	if cfg.client == cfGRPC {
		st := p.sink.trailers().Get("Grpc-Status")
		verifAssert(st != "" && st != "0", "C09: a truncated unary response ends with an error status")
	}
}

// hC09UnaryReq: request-side faults towards backends without envelopes (Connect unary, REST), where "the body
// ends" is all a backend sees of a message boundary: an enveloped client's unary request whose payload is
// undecodable, or corrupt compressed data, or cut short. The client gets a non-OK outcome, and the backend is
// either not invoked or its read of the request body fails - it never reads a clean end of body, which would be
// a complete-looking (empty or partial) message the client never sent.
func hC09UnaryReq() {
	cfg := &pipeCfg{maxMsg: 64, kind: fkUnary, clientCodec: CodecJSON, svcCodecs: []string{CodecProto}}
	cfg.client = verifChoose("client", 2) // gRPC, gRPC-Web
	cfg.svcProtos = []Protocol{[]Protocol{ProtocolConnect, ProtocolREST}[verifChoose("target", 2)]}
	fault := verifChoose("fault", 3)
	cfg.clientComp = fault == 1
	if fault == 2 && verifChoose("sameCodec", 2) == 1 {
		// pure re-framing (nothing is decoded): only the announced length can reveal the cut
		cfg.svcCodecs = []string{CodecJSON}
	}
	p := newPipe(cfg)
	if !p.buildOK {
		return
	}
	// a backend that, like a real one, fails the RPC when it cannot read or understand its request
	wb := &c09Backend{pipeBackend: *p.backend}
	p.tr.methods[pipePath].handler = wb
	p.req = buildClientRequest(cfg, nil, p.body)
	switch fault {
	case 0: // payload that is not a document of the client's codec
		p.body.data = appendFrame(nil, 0, nondetBytes("garbage", 2))
		verifAssume(p.body.data[5] != '{')
	case 1: // compressed flag, payload is not compressed data
		p.body.data = appendFrame(nil, 1, []byte{9, 9})
	default: // envelope announces more than arrives
		whole := appendFrame(nil, 0, refToyEncode(true, []byte("abc")))
		p.body.data = whole[:len(whole)-1-verifChoose("missing", 3)]
	}
	p.tr.ServeHTTP(p.sink, p.req)
	out := refParseClientResponse(cfg, p.sink, wb.rec.calls > 0)
	verifObsInt("calls", int64(wb.rec.calls))
	verifObsBytes("backend-body", wb.rec.body)
	verifObsBool("backend-read-failed", wb.rec.readErr != nil)
	verifObsInt("client-code", int64(out.code))
	verifReach("faulty-unary-request")
	verifAssert(out.valid && out.code != 0, "C09: a faulty unary request gets a well-formed non-OK outcome")
	if wb.rec.calls > 0 {
		verifReach("backend-invoked")
		verifAssert(wb.rec.readErr != nil, "C09: a backend without envelopes never reads a clean end of body for a request the client did not send completely or decodably")
	}
}

// hC09RestGetTail: an enveloped client calling a unary method whose REST binding has no body (GET): the one
// request message is consumed to build the request line and nothing of the client's body is passed on. What
// follows that message in the client's stream must still count: a second message, an envelope with invalid
// flags or a cut envelope is a malformed request and must not end as a success.
func hC09RestGetTail() {
	rules := []*annotations.HttpRule{{Selector: pipeSvc + "." + pipeMethod, Pattern: &annotations.HttpRule_Get{Get: "/v3/{name}/x"}}}
	f := newRestFixture(ProtocolREST, rules)
	verifAssert(f != nil, "REST rule accepted")
	if f == nil {
		return
	}
	// (the backend's answer: an empty message in the field-carrying text encoding, "{" 0x01 "}")
	f.backend.script = &respScript{msgs: []wireMsg{{abstract: []byte{toyFieldMarkText ^ 0x20}}}}
	msg := &fakeMsg{}
	msg.fvals[0], msg.fset[0] = "n", true
	stream := appendFrame(nil, 0, toyAppendFields(false, nil, msg))
	tail := verifChoose("tail", 4)
	switch tail {
	case 1:
		stream = appendFrame(stream, 0, toyAppendFields(false, nil, msg))
	case 2:
		stream = append(stream, nondetBytes("flags", 1)[0], 0, 0, 0, 0)
		verifAssume(stream[len(stream)-5] > 1)
	case 3:
		stream = append(stream, 0, 0, 0)
	}
	ct := []string{"application/grpc+proto", "application/grpc-web+proto"}[verifChoose("client", 2)]
	req := &http.Request{Method: "POST", URL: &url.URL{Path: pipePath}, Proto: "HTTP/2", ProtoMajor: 2, Header: http.Header{"Content-Type": {ct}},
		Body: &fakeBody{data: stream}, ContentLength: -1}
	f.tr.ServeHTTP(f.sink, req)
	status := f.sink.hdr.Get("Grpc-Status")
	if status == "" {
		status = f.sink.trailers().Get("Grpc-Status")
	}
	if status == "" && ct == "application/grpc-web+proto" {
		// gRPC-Web: the status is in the trailers frame of the body
		frames, _ := refSplitFrames(f.sink.body)
		for _, fr := range frames {
			if fr.flags&0x80 != 0 {
				if h, ok := splitTrailerBlock(fr.payload); ok {
					status = h.Get("Grpc-Status")
				}
			}
		}
	}
	verifObsStr("grpc-status", status)
	verifObsInt("calls", int64(f.backend.rec.calls))
	verifReach("rest-get-backend")
	if tail == 0 {
		verifAssert(f.backend.rec.calls == 1 && status == "0", "C09: a well-formed unary call to a REST GET binding succeeds")
		return
	}
	verifReach("faulty-tail")
	verifAssert(status != "" && status != "0", "C09: a request stream that is malformed behind its first message never surfaces as success, also when the backend is not handed a body")
}
