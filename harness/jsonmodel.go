package vanguard

// Models of the encoding/json entry points the transcoder uses, for exactly the two wire structs it
// marshals (connectWireError, connectStreamEnd). They implement the real JSON syntax for a canonical
// subset (no whitespace, struct field order, strings without escapes); inputs outside the subset end
// the path with verifOutside, so nothing is claimed about them. The engine redirects the json
// functions here; the native twin runs the real encoding/json on the same bytes, and the
// translator validation compares the two on sampled paths.

import (
	"encoding/json"
	"errors"
	"io"
	"net/http"
	"sort"
)

var errJSONModel = errors.New("json: invalid input")

func jsonPlain(c byte) bool {
	return c >= ' ' && c <= '~' && c != '"' && c != '\\' && c != '<' && c != '>' && c != '&'
}

func jsonAppendString(b []byte, s string) []byte {
	b = append(b, '"')
	for i := 0; i < len(s); i++ {
		if !jsonPlain(s[i]) {
			verifOutside("json string needing escapes (outside the json model)")
		}
		b = append(b, s[i])
	}
	return append(b, '"')
}

func jsonAppendWireError(b []byte, e *connectWireError) []byte {
	if len(e.Details) > 0 {
		verifOutside("error details (outside the json model)")
	}
	code, _ := e.Code.MarshalText()
	b = append(b, `{"code":`...)
	b = jsonAppendString(b, string(code))
	if e.Message != "" {
		b = append(b, `,"message":`...)
		b = jsonAppendString(b, e.Message)
	}
	return append(b, '}')
}

func jsonAppendStreamEnd(b []byte, e *connectStreamEnd) []byte {
	b = append(b, '{')
	first := true
	if e.Error != nil {
		b = append(b, `"error":`...)
		b = jsonAppendWireError(b, e.Error)
		first = false
	}
	if len(e.Metadata) > 0 {
		if !first {
			b = append(b, ',')
		}
		b = append(b, `"metadata":{`...)
		keys := make([]string, 0, len(e.Metadata))
		for k := range e.Metadata {
			keys = append(keys, k)
		}
		sort.Strings(keys)
		for i, k := range keys {
			if i > 0 {
				b = append(b, ',')
			}
			b = jsonAppendString(b, k)
			b = append(b, ':')
			vals := e.Metadata[k]
			if vals == nil {
				b = append(b, "null"...)
				continue
			}
			b = append(b, '[')
			for j, v := range vals {
				if j > 0 {
					b = append(b, ',')
				}
				b = jsonAppendString(b, v)
			}
			b = append(b, ']')
		}
		b = append(b, '}')
	}
	return append(b, '}')
}

func verifModel_encoding_json_Marshal(v any) ([]byte, error) {
	switch x := v.(type) {
	case *connectWireError:
		return jsonAppendWireError(nil, x), nil
	case *connectStreamEnd:
		return jsonAppendStreamEnd(nil, x), nil
	}
	verifOutside("json.Marshal of a type outside the json model")
	return nil, nil
}

var verifEncoders = map[*json.Encoder]io.Writer{}

func verifModel_encoding_json_NewEncoder(w io.Writer) *json.Encoder {
	e := new(json.Encoder)
	verifEncoders[e] = w
	return e
}

func verifModel_encoding_json_Encoder_Encode(enc *json.Encoder, v any) error {
	w := verifEncoders[enc]
	b, err := verifModel_encoding_json_Marshal(v)
	if err != nil {
		return err
	}
	b = append(b, '\n')
	_, err = w.Write(b)
	return err
}

// ---- parsing ---------------------------------------------------------------------------

type jsonCursor struct {
	b   []byte
	pos int
}

func (c *jsonCursor) lit(s string) bool {
	if c.pos+len(s) > len(c.b) {
		return false
	}
	for i := 0; i < len(s); i++ {
		if c.b[c.pos+i] != s[i] {
			return false
		}
	}
	c.pos += len(s)
	return true
}

// str parses a plain string; ok=false means "not in the subset".
func (c *jsonCursor) str() (string, bool) {
	if c.pos >= len(c.b) || c.b[c.pos] != '"' {
		return "", false
	}
	i := c.pos + 1
	for i < len(c.b) && c.b[i] != '"' {
		if !jsonPlain(c.b[i]) {
			return "", false
		}
		i++
	}
	if i >= len(c.b) {
		return "", false
	}
	s := string(c.b[c.pos+1 : i])
	c.pos = i + 1
	return s, true
}

func jsonParseWireError(c *jsonCursor, e *connectWireError) (inSubset bool, err error) {
	if !c.lit(`{"code":`) {
		return false, nil
	}
	code, ok := c.str()
	if !ok {
		return false, nil
	}
	if uerr := e.Code.UnmarshalText([]byte(code)); uerr != nil {
		return true, uerr
	}
	if c.lit(`,"message":`) {
		msg, ok := c.str()
		if !ok {
			return false, nil
		}
		e.Message = msg
	}
	if !c.lit("}") {
		return false, nil
	}
	return true, nil
}

func jsonParseStreamEnd(c *jsonCursor, e *connectStreamEnd) (inSubset bool, err error) {
	if !c.lit("{") {
		return false, nil
	}
	if c.lit("}") {
		return true, nil
	}
	if c.lit(`"error":`) {
		e.Error = &connectWireError{}
		ok, perr := jsonParseWireError(c, e.Error)
		if !ok || perr != nil {
			return ok, perr
		}
		if c.lit("}") {
			return true, nil
		}
		if !c.lit(",") {
			return false, nil
		}
	}
	if !c.lit(`"metadata":{`) {
		return false, nil
	}
	e.Metadata = http.Header{}
	for i := 0; ; i++ {
		if i > 0 && !c.lit(",") {
			break
		}
		k, ok := c.str()
		if !ok {
			if i == 0 {
				break
			}
			return false, nil
		}
		if !c.lit(":[") {
			return false, nil
		}
		var vals []string
		for j := 0; ; j++ {
			if j > 0 && !c.lit(",") {
				break
			}
			v, ok := c.str()
			if !ok {
				if j == 0 {
					break
				}
				return false, nil
			}
			vals = append(vals, v)
		}
		if !c.lit("]") {
			return false, nil
		}
		if vals == nil {
			vals = []string{}
		}
		if _, dup := e.Metadata[k]; dup {
			return false, nil
		}
		e.Metadata[k] = vals
	}
	if !c.lit("}}") {
		return false, nil
	}
	return true, nil
}

func verifModel_encoding_json_Unmarshal(data []byte, v any) error {
	if len(data) == 0 {
		return errJSONModel
	}
	switch data[0] {
	case '{':
	case ' ', '\t', '\r', '\n', 'n':
		verifOutside("json input outside the modelled subset")
	default:
		return errJSONModel // not an object: syntax or type error in the real decoder too
	}
	c := &jsonCursor{b: data}
	var ok bool
	var err error
	switch x := v.(type) {
	case *connectStreamEnd:
		ok, err = jsonParseStreamEnd(c, x)
	case *connectWireError:
		ok, err = jsonParseWireError(c, x)
	default:
		verifOutside("json.Unmarshal into a type outside the json model")
	}
	if !ok || (err == nil && c.pos != len(data)) {
		verifOutside("json input outside the modelled subset")
	}
	return err
}
