package vanguard

// Models of the encoding/json entry points the transcoder uses, for exactly the two wire structs it
// marshals (connectWireError, connectStreamEnd). They implement the real JSON syntax for a canonical
// subset (no whitespace, struct field order, strings without escapes); inputs outside the subset end
// the path with verifOutside, so nothing is claimed about them. The engine redirects the json
// functions here; the native twin runs the real encoding/json on the same bytes, and the
// translator validation compares the two on sampled paths.

import (
	"encoding/json"
	"errors"
	"io"
	"net/http"
	"sort"
	"strconv"

	"google.golang.org/protobuf/reflect/protoreflect"
)

var errJSONModel = errors.New("json: invalid input")

func jsonPlain(c byte) bool {
	return c >= ' ' && c <= '~' && c != '"' && c != '\\' && c != '<' && c != '>' && c != '&'
}

func jsonAppendString(b []byte, s string) []byte {
	b = append(b, '"')
	for i := 0; i < len(s); i++ {
		if !jsonPlain(s[i]) {
			verifOutside("json string needing escapes (outside the json model)")
		}
		b = append(b, s[i])
	}
	return append(b, '"')
}

func jsonAppendWireError(b []byte, e *connectWireError) []byte {
	code, _ := e.Code.MarshalText()
	b = append(b, `{"code":`...)
	b = jsonAppendString(b, string(code))
	if e.Message != "" {
		b = append(b, `,"message":`...)
		b = jsonAppendString(b, e.Message)
	}
	if len(e.Details) > 0 {
		b = append(b, `,"details":[`...)
		for i, d := range e.Details {
			if i > 0 {
				b = append(b, ',')
			}
			if len(d.Debug) > 0 {
				verifOutside("error detail with a debug rendering (outside the json model)")
			}
			b = append(b, `{"type":`...)
			b = jsonAppendString(b, d.Type)
			b = append(b, `,"value":`...)
			b = jsonAppendString(b, d.Value)
			b = append(b, '}')
		}
		b = append(b, ']')
	}
	return append(b, '}')
}

func jsonAppendStreamEnd(b []byte, e *connectStreamEnd) []byte {
	b = append(b, '{')
	first := true
	if e.Error != nil {
		b = append(b, `"error":`...)
		b = jsonAppendWireError(b, e.Error)
		first = false
	}
	if len(e.Metadata) > 0 {
		if !first {
			b = append(b, ',')
		}
		b = append(b, `"metadata":{`...)
		keys := make([]string, 0, len(e.Metadata))
		for k := range e.Metadata {
			keys = append(keys, k)
		}
		sort.Strings(keys)
		for i, k := range keys {
			if i > 0 {
				b = append(b, ',')
			}
			b = jsonAppendString(b, k)
			b = append(b, ':')
			vals := e.Metadata[k]
			if vals == nil {
				b = append(b, "null"...)
				continue
			}
			b = append(b, '[')
			for j, v := range vals {
				if j > 0 {
					b = append(b, ',')
				}
				b = jsonAppendString(b, v)
			}
			b = append(b, ']')
		}
		b = append(b, '}')
	}
	return append(b, '}')
}

func verifModel_encoding_json_Marshal(v any) ([]byte, error) {
	switch x := v.(type) {
	case bool:
		if x {
			return []byte("true"), nil
		}
		return []byte("false"), nil
	case int32:
		return []byte(strconv.FormatInt(int64(x), 10)), nil
	case int64:
		return []byte(strconv.FormatInt(x, 10)), nil
	case uint32:
		return []byte(strconv.FormatUint(uint64(x), 10)), nil
	case uint64:
		return []byte(strconv.FormatUint(x, 10)), nil
	case *connectWireError:
		return jsonAppendWireError(nil, x), nil
	case *connectStreamEnd:
		return jsonAppendStreamEnd(nil, x), nil
	}
	verifOutside("json.Marshal of a type outside the json model")
	return nil, nil
}

var verifEncoders = map[*json.Encoder]io.Writer{}

func verifModel_encoding_json_NewEncoder(w io.Writer) *json.Encoder {
	e := new(json.Encoder)
	verifEncoders[e] = w
	return e
}

func verifModel_encoding_json_Encoder_Encode(enc *json.Encoder, v any) error {
	w := verifEncoders[enc]
	b, err := verifModel_encoding_json_Marshal(v)
	if err != nil {
		return err
	}
	b = append(b, '\n')
	_, err = w.Write(b)
	return err
}

// ---- parsing ---------------------------------------------------------------------------

type jsonCursor struct {
	b   []byte
	pos int
}

func (c *jsonCursor) lit(s string) bool {
	if c.pos+len(s) > len(c.b) {
		return false
	}
	for i := 0; i < len(s); i++ {
		if c.b[c.pos+i] != s[i] {
			return false
		}
	}
	c.pos += len(s)
	return true
}

// str parses a plain string; ok=false means "not in the subset".
func (c *jsonCursor) str() (string, bool) {
	if c.pos >= len(c.b) || c.b[c.pos] != '"' {
		return "", false
	}
	i := c.pos + 1
	for i < len(c.b) && c.b[i] != '"' {
		if !jsonPlain(c.b[i]) {
			return "", false
		}
		i++
	}
	if i >= len(c.b) {
		return "", false
	}
	s := string(c.b[c.pos+1 : i])
	c.pos = i + 1
	return s, true
}

func jsonParseWireError(c *jsonCursor, e *connectWireError) (inSubset bool, err error) {
	if c.lit("{}") {
		return true, nil // an object without any field: every field keeps its zero value
	}
	if !c.lit(`{"code":`) {
		return false, nil
	}
	code, ok := c.str()
	if !ok {
		return false, nil
	}
	if uerr := e.Code.UnmarshalText([]byte(code)); uerr != nil {
		return true, uerr
	}
	if c.lit(`,"message":`) {
		msg, ok := c.str()
		if !ok {
			return false, nil
		}
		e.Message = msg
	}
	if c.lit(`,"details":[`) {
		for i := 0; ; i++ {
			if i > 0 && !c.lit(",") {
				break
			}
			if !c.lit(`{"type":`) {
				return false, nil
			}
			typ, ok := c.str()
			if !ok || !c.lit(`,"value":`) {
				return false, nil
			}
			val, ok := c.str()
			if !ok || !c.lit("}") {
				return false, nil
			}
			e.Details = append(e.Details, connectWireDetail{Type: typ, Value: val})
		}
		if !c.lit("]") {
			return false, nil
		}
	}
	if !c.lit("}") {
		return false, nil
	}
	return true, nil
}

func jsonParseStreamEnd(c *jsonCursor, e *connectStreamEnd) (inSubset bool, err error) {
	if !c.lit("{") {
		return false, nil
	}
	if c.lit("}") {
		return true, nil
	}
	if c.lit(`"error":`) {
		e.Error = &connectWireError{}
		ok, perr := jsonParseWireError(c, e.Error)
		if !ok || perr != nil {
			return ok, perr
		}
		if c.lit("}") {
			return true, nil
		}
		if !c.lit(",") {
			return false, nil
		}
	}
	if !c.lit(`"metadata":{`) {
		return false, nil
	}
	e.Metadata = http.Header{}
	for i := 0; ; i++ {
		if i > 0 && !c.lit(",") {
			break
		}
		k, ok := c.str()
		if !ok {
			if i == 0 {
				break
			}
			return false, nil
		}
		if !c.lit(":[") {
			return false, nil
		}
		var vals []string
		for j := 0; ; j++ {
			if j > 0 && !c.lit(",") {
				break
			}
			v, ok := c.str()
			if !ok {
				if j == 0 {
					break
				}
				return false, nil
			}
			vals = append(vals, v)
		}
		if !c.lit("]") {
			return false, nil
		}
		if vals == nil {
			vals = []string{}
		}
		if _, dup := e.Metadata[k]; dup {
			return false, nil
		}
		e.Metadata[k] = vals
	}
	if !c.lit("}}") {
		return false, nil
	}
	return true, nil
}

// ---- scalars (REST query/path parameters are decoded with json.Unmarshal into Go scalars) ----

func jsonWS(c byte) bool { return c == ' ' || c == '\t' || c == '\r' || c == '\n' }

const (
	jsBad = iota // not a JSON document
	jsNull
	jsTrue
	jsFalse
	jsNumber
	jsOther // string, array, object: validated by the real decoder only (outside the model)
)

func jsonIsLit(b []byte, lit string) bool {
	if len(b) != len(lit) {
		return false
	}
	for i := range b {
		if b[i] != lit[i] {
			return false
		}
	}
	return true
}

// jsonScalarToken classifies a document made of one literal with optional surrounding whitespace.
// For numbers it reports whether the literal is a plain integer (no fraction, no exponent).
func jsonScalarToken(data []byte) (kind int, tok []byte, plainInt bool) {
	i, j := 0, len(data)
	for i < j && jsonWS(data[i]) {
		i++
	}
	for j > i && jsonWS(data[j-1]) {
		j--
	}
	tok = data[i:j]
	if len(tok) == 0 {
		return jsBad, nil, false
	}
	switch c := tok[0]; {
	case c == '"' || c == '[' || c == '{':
		return jsOther, tok, false
	case c == 'n':
		if jsonIsLit(tok, "null") {
			return jsNull, tok, false
		}
		return jsBad, tok, false
	case c == 't':
		if jsonIsLit(tok, "true") {
			return jsTrue, tok, false
		}
		return jsBad, tok, false
	case c == 'f':
		if jsonIsLit(tok, "false") {
			return jsFalse, tok, false
		}
		return jsBad, tok, false
	case c == '-' || (c >= '0' && c <= '9'):
		k := 0
		if tok[k] == '-' {
			k++
		}
		if k >= len(tok) || tok[k] < '0' || tok[k] > '9' {
			return jsBad, tok, false
		}
		if tok[k] == '0' {
			k++
		} else {
			for k < len(tok) && tok[k] >= '0' && tok[k] <= '9' {
				k++
			}
		}
		plain := true
		if k < len(tok) && tok[k] == '.' {
			plain = false
			k++
			if k >= len(tok) || tok[k] < '0' || tok[k] > '9' {
				return jsBad, tok, false
			}
			for k < len(tok) && tok[k] >= '0' && tok[k] <= '9' {
				k++
			}
		}
		if k < len(tok) && (tok[k] == 'e' || tok[k] == 'E') {
			plain = false
			k++
			if k < len(tok) && (tok[k] == '+' || tok[k] == '-') {
				k++
			}
			if k >= len(tok) || tok[k] < '0' || tok[k] > '9' {
				return jsBad, tok, false
			}
			for k < len(tok) && tok[k] >= '0' && tok[k] <= '9' {
				k++
			}
		}
		if k != len(tok) {
			return jsBad, tok, false
		}
		return jsNumber, tok, plain
	}
	return jsBad, tok, false
}

// jsonIntLiteral: magnitude and sign of a plain integer literal; ok=false when the magnitude exceeds 64 bits.
func jsonIntLiteral(tok []byte) (neg bool, mag uint64, ok bool) {
	k := 0
	if tok[0] == '-' {
		neg = true
		k = 1
	}
	for ; k < len(tok); k++ {
		d := uint64(tok[k] - '0')
		if mag > (^uint64(0)-d)/10 {
			return neg, 0, false
		}
		mag = mag*10 + d
	}
	return neg, mag, true
}

// jsonUnmarshalScalar returns handled=false when v is not one of the scalar targets.
func jsonUnmarshalScalar(data []byte, v any) (handled bool, err error) {
	bits, signed := 0, false
	var pb *bool
	switch x := v.(type) {
	case *bool:
		pb = x
	case *int32:
		bits, signed = 32, true
	case *int64:
		bits, signed = 64, true
	case *uint32:
		bits = 32
	case *uint64:
		bits = 64
	case *protoreflect.EnumNumber:
		bits, signed = 32, true
	default:
		return false, nil
	}
	kind, tok, plain := jsonScalarToken(data)
	switch kind {
	case jsBad:
		return true, &json.SyntaxError{}
	case jsOther:
		verifOutside("json string/array/object given for a scalar (outside the json model)")
	case jsNull:
		return true, nil // null leaves the target unchanged
	}
	if pb != nil {
		switch kind {
		case jsTrue:
			*pb = true
		case jsFalse:
			*pb = false
		default:
			return true, &json.UnmarshalTypeError{Value: "number"}
		}
		return true, nil
	}
	if kind != jsNumber {
		return true, &json.UnmarshalTypeError{Value: "bool"}
	}
	typeErr := &json.UnmarshalTypeError{Value: "number"}
	if !plain {
		return true, typeErr
	}
	neg, mag, ok := jsonIntLiteral(tok)
	if !ok {
		return true, typeErr
	}
	if signed {
		limit := uint64(1) << (bits - 1) // |min|
		if (neg && mag > limit) || (!neg && mag > limit-1) {
			return true, typeErr
		}
		val := int64(mag)
		if neg {
			val = -val
		}
		switch x := v.(type) {
		case *int32:
			*x = int32(val)
		case *int64:
			*x = val
		case *protoreflect.EnumNumber:
			*x = protoreflect.EnumNumber(val)
		}
		return true, nil
	}
	if neg || (bits == 32 && mag > 0xFFFFFFFF) {
		return true, typeErr
	}
	switch x := v.(type) {
	case *uint32:
		*x = uint32(mag)
	case *uint64:
		*x = mag
	}
	return true, nil
}

func verifModel_encoding_json_Unmarshal(data []byte, v any) error {
	if handled, err := jsonUnmarshalScalar(data, v); handled {
		return err
	}
	if len(data) == 0 {
		return errJSONModel
	}
	switch data[0] {
	case '{':
	case ' ', '\t', '\r', '\n', 'n':
		verifOutside("json input outside the modelled subset")
	default:
		return errJSONModel // not an object: syntax or type error in the real decoder too
	}
	c := &jsonCursor{b: data}
	var ok bool
	var err error
	switch x := v.(type) {
	case *connectStreamEnd:
		ok, err = jsonParseStreamEnd(c, x)
	case *connectWireError:
		ok, err = jsonParseWireError(c, x)
	default:
		verifOutside("json.Unmarshal into a type outside the json model")
	}
	if !ok || (err == nil && c.pos != len(data)) {
		verifOutside("json input outside the modelled subset")
	}
	return err
}
