package vanguard

import (
	"net/http"
	"net/url"

	"google.golang.org/protobuf/types/descriptorpb"
)

// hSmokePipe: development smoke test: gRPC client -> Connect streaming backend, request re-framing.
func hSmokePipe() {
	svc := newFakeService("pkg.Svc")
	svc.addMethod("Bidi", fkBidi, descriptorpb.MethodOptions_IDEMPOTENCY_UNKNOWN, false)
	rec := &backendRecord{}
	handler := http.HandlerFunc(func(w http.ResponseWriter, r *http.Request) {
		rec.calls++
		rec.method = r.Method
		rec.path = r.URL.Path
		rec.header = r.Header.Clone()
		rec.body, rec.readErr = readAllSized(r.Body, 3, 64)
		w.Header().Set("Content-Type", "application/connect+proto")
		w.WriteHeader(200)
		w.Write([]byte{2, 0, 0, 0, 2, '{', '}'})
	})
	tr, err := newFakeTranscoder(svc, handler, &fakeConfig{protocols: []Protocol{ProtocolConnect}, codecs: []string{CodecProto}, maxMsg: 8}, nil, nil)
	verifAssert(err == nil, "transcoder builds")
	if err != nil {
		return
	}
	n := verifChoose("len", 9)
	data := nondetBytes("wire", n)
	req := &http.Request{Method: "POST", URL: &url.URL{Path: "/pkg.Svc/Bidi"}, Proto: "HTTP/2", ProtoMajor: 2,
		Header: http.Header{"Content-Type": {"application/grpc"}}, Body: &fakeBody{data: data}, ContentLength: -1}
	sink := newFakeSink()
	tr.ServeHTTP(sink, req)
	verifReach("served")
	verifObsInt("calls", int64(rec.calls))
	verifObsBytes("backend-body", rec.body)
	verifObsInt("status", int64(sink.status))
	verifObsBytes("client-body", sink.body)
	verifAssert(rec.calls <= 1, "at most one dispatch")
	verifAssert(sink.heads <= 1, "at most one response head")
}
