package vanguard

import (
	"io"
	"net/http"
	"net/url"
	"strconv"
	"strings"

	"google.golang.org/genproto/googleapis/api/annotations"
	"google.golang.org/protobuf/types/descriptorpb"
)

// Pipeline harness infrastructure: a real Transcoder (fake schema, toy codecs/compressor) is driven
// through ServeHTTP by a generated client request; a scripted backend that speaks the negotiated
// target protocol records what it received and answers; reference parsers written from the protocol
// specs decode both what the backend saw and what the client got.

const (
	cfGRPC = iota
	cfGRPCWeb
	cfConnectStream
	cfConnectUnary
	cfConnectGet
	cfREST
)

type wireMsg struct {
	abstract   []byte
	compressed bool // per-message compressed flag (enveloped forms); whole-body compression for unary forms
}

type pipeCfg struct {
	client      int
	clientCodec string
	clientComp  bool // client declares gzip for its request messages
	svcProtos   []Protocol
	svcCodecs   []string
	svcComp     bool
	kind        int // fkUnary / fkBidi / ...
	maxMsg      uint32
	idem        descriptorpb.MethodOptions_IdempotencyLevel
	hasIdem     bool
	unstable    bool
	maxGetURL   uint32
	expand      int
	decompCount *int
	jsonRepeat  int
	// failMarshal: the codecs cannot marshal a message that contains the byte 0xFF (decodable on the wire, no form
	// in the other codec - like a Timestamp beyond year 9999 in JSON)
	failMarshal bool
}

func clientProtocolOf(form int) Protocol {
	switch form {
	case cfGRPC:
		return ProtocolGRPC
	case cfGRPCWeb:
		return ProtocolGRPCWeb
	case cfREST:
		return ProtocolREST
	}
	return ProtocolConnect
}

func clientEnveloped(form int) bool {
	return form == cfGRPC || form == cfGRPCWeb || form == cfConnectStream
}

func hasProto(set []Protocol, p Protocol) bool {
	for _, x := range set {
		if x == p {
			return true
		}
	}
	return false
}

func hasString(set []string, s string) bool {
	for _, x := range set {
		if x == s {
			return true
		}
	}
	return false
}

// refNegotiate: the target triple the property prescribes (client's kept when acceptable).
func refNegotiate(cfg *pipeCfg) (p Protocol, codec string, comp bool) {
	cp := clientProtocolOf(cfg.client)
	if hasProto(cfg.svcProtos, cp) {
		p = cp
	} else {
		for _, cand := range []Protocol{ProtocolConnect, ProtocolGRPC, ProtocolGRPCWeb, ProtocolREST} {
			if hasProto(cfg.svcProtos, cand) {
				p = cand
				break
			}
		}
	}
	if p == ProtocolREST {
		codec = CodecJSON
	} else if hasString(cfg.svcCodecs, cfg.clientCodec) {
		codec = cfg.clientCodec
	} else {
		codec = cfg.svcCodecs[0]
	}
	comp = cfg.clientComp && cfg.svcComp
	return
}

func be32(n int) []byte {
	return []byte{byte(n >> 24), byte(n >> 16), byte(n >> 8), byte(n)}
}

func appendFrame(out []byte, flags byte, payload []byte) []byte {
	out = append(out, flags)
	out = append(out, be32(len(payload))...)
	return append(out, payload...)
}

// encodeMsg: codec encoding then optional toy compression.
func encodeMsg(codec string, m wireMsg) []byte {
	b := refToyEncode(codec == CodecJSON, m.abstract)
	if m.compressed {
		b = refToyCompress(b)
	}
	return b
}

const pipeSvc = "pkg.Svc"
const pipeMethod = "Do"
const pipePath = "/" + pipeSvc + "/" + pipeMethod
const pipeRESTPath = "/v1/do"

// buildClientRequest renders the client's request in its own wire form.
func buildClientRequest(cfg *pipeCfg, msgs []wireMsg, body *fakeBody) *http.Request {
	h := http.Header{}
	u := &url.URL{Path: pipePath}
	req := &http.Request{Method: "POST", URL: u, Proto: "HTTP/1.1", ProtoMajor: 1, ProtoMinor: 1, Header: h, ContentLength: -1}
	var data []byte
	switch cfg.client {
	case cfGRPC, cfGRPCWeb, cfConnectStream:
		for _, m := range msgs {
			fl := byte(0)
			if m.compressed {
				fl = 1
			}
			data = appendFrame(data, fl, encodeMsg(cfg.clientCodec, m))
		}
		switch cfg.client {
		case cfGRPC:
			h.Set("Content-Type", "application/grpc+"+cfg.clientCodec)
			h.Set("Te", "trailers")
			if cfg.clientComp {
				h.Set("Grpc-Encoding", "gzip")
			}
		case cfGRPCWeb:
			h.Set("Content-Type", "application/grpc-web+"+cfg.clientCodec)
			if cfg.clientComp {
				h.Set("Grpc-Encoding", "gzip")
			}
		default:
			h.Set("Content-Type", "application/connect+"+cfg.clientCodec)
			if cfg.clientComp {
				h.Set("Connect-Content-Encoding", "gzip")
			}
		}
		req.Proto, req.ProtoMajor, req.ProtoMinor = "HTTP/2.0", 2, 0 // (what net/http's HTTP/2 server reports)
	case cfConnectUnary:
		h.Set("Content-Type", "application/"+cfg.clientCodec)
		h.Set("Connect-Protocol-Version", "1")
		if len(msgs) > 0 {
			m := msgs[0]
			m.compressed = cfg.clientComp
			data = encodeMsg(cfg.clientCodec, m)
		}
		if cfg.clientComp {
			h.Set("Content-Encoding", "gzip")
		}
	case cfConnectGet:
		req.Method = "GET"
		q := "connect=v1&encoding=" + cfg.clientCodec
		var payload []byte
		if len(msgs) > 0 {
			m := msgs[0]
			m.compressed = cfg.clientComp
			payload = encodeMsg(cfg.clientCodec, m)
		}
		if cfg.clientComp {
			q += "&compression=gzip"
		}
		q += "&base64=1&message=" + refBase64URL(payload)
		u.RawQuery = q
	case cfREST:
		u.Path = pipeRESTPath
		h.Set("Content-Type", "application/json")
		if len(msgs) > 0 {
			m := msgs[0]
			m.compressed = cfg.clientComp
			data = encodeMsg(CodecJSON, m)
		}
		if cfg.clientComp {
			h.Set("Content-Encoding", "gzip")
		}
	}
	body.data = data
	req.Body = body
	return req
}

const refB64URLAlphabet = "ABCDEFGHIJKLMNOPQRSTUVWXYZabcdefghijklmnopqrstuvwxyz0123456789-_"

// refBase64URL: unpadded URL-safe base64.
func refBase64URL(b []byte) string {
	var out []byte
	for i := 0; i < len(b); i += 3 {
		var v uint32
		n := 0
		for j := 0; j < 3; j++ {
			v <<= 8
			if i+j < len(b) {
				v |= uint32(b[i+j])
				n++
			}
		}
		out = append(out, refB64URLAlphabet[(v>>18)&63], refB64URLAlphabet[(v>>12)&63])
		if n > 1 {
			out = append(out, refB64URLAlphabet[(v>>6)&63])
		}
		if n > 2 {
			out = append(out, refB64URLAlphabet[v&63])
		}
	}
	return string(out)
}

// ---- reference parsers -------------------------------------------------------------------------

type refFrame struct {
	flags   byte
	payload []byte
}

// refSplitFrames parses an enveloped stream; complete=false if bytes are left over / truncated.
func refSplitFrames(b []byte) (frames []refFrame, complete bool) {
	for len(b) > 0 {
		if len(b) < 5 {
			return frames, false
		}
		n := int(refBE32(b[1:5]))
		if n < 0 || len(b)-5 < n {
			return frames, false
		}
		frames = append(frames, refFrame{flags: b[0], payload: b[5 : 5+n]})
		b = b[5+n:]
	}
	return frames, true
}

// refStrictCompressed: in harnesses whose peers are well-formed (they never send a zero-length payload marked
// compressed themselves), a payload that is marked compressed must be a compressed payload: zero bytes are
// not one (real gzip, like the toy compressor, emits at least a header for the empty message). Elsewhere a
// zero-length payload is read as the empty message whatever the flag says, because the transcoder relays such
// a frame unchanged on its re-framing path and receivers differ on it.
var refStrictCompressed bool

// refDecodeMsg: optional toy decompression then codec decoding.
func refDecodeMsg(codec string, compressed bool, wire []byte) ([]byte, bool) {
	if compressed && len(wire) == 0 && refStrictCompressed {
		return nil, false
	}
	if compressed && len(wire) > 0 { // a zero-length payload is the empty message whatever the flag says

		d, ok := refToyDecompress(wire)
		if !ok {
			return nil, false
		}
		wire = d
	}
	return refToyDecode(codec == CodecJSON, wire)
}

// what a backend of the target protocol understands from the request body it received.
// enveloped: frames with flags in {0,1}; flag 1 only if compression was declared.
// un-enveloped (Connect unary, REST): one message = whole body, compressed iff declared.
func refParseBackendBody(target Protocol, unary bool, codec string, compDeclared bool, body []byte) (msgs [][]byte, ok bool) {
	enveloped := target == ProtocolGRPC || target == ProtocolGRPCWeb || (target == ProtocolConnect && !unary)
	if !enveloped {
		if len(body) == 0 && codec != CodecJSON && !(compDeclared && refStrictCompressed) {
			return [][]byte{{}}, true // empty proto message
		}
		m, ok := refDecodeMsg(codec, compDeclared, body)
		if !ok {
			return nil, false
		}
		return [][]byte{m}, true
	}
	frames, complete := refSplitFrames(body)
	if !complete {
		return nil, false
	}
	for _, f := range frames {
		if f.flags != 0 && f.flags != 1 {
			return nil, false
		}
		if f.flags == 1 && !compDeclared {
			return nil, false
		}
		m, ok := refDecodeMsg(codec, f.flags == 1, f.payload)
		if !ok {
			return nil, false
		}
		msgs = append(msgs, m)
	}
	return msgs, true
}

// ---- backend -------------------------------------------------------------------------------------

type respScript struct {
	msgs         []wireMsg
	comp         bool   // backend declares gzip
	errCode      uint32 // 0 = OK
	errMsg       string
	details      []refDetail // error details carried by the error end
	errAfter     int         // number of messages written before the error end (<= len(msgs))
	trailersOnly bool        // gRPC: status in the header block, no body
	declareLen   bool        // unary targets: set Content-Length
	splitAt      int         // split each Write at this offset (0 = single write)
	writeMode    int         // wm* segmentation of the response body
	noHead       bool        // never call WriteHeader explicitly
	trailerHdrs  http.Header
	respHdrs     http.Header
	announce     bool // gRPC trailers announced via "Trailer" header instead of http.TrailerPrefix
	announceLow  bool // ... with lower-case names in the Trailer header
	announceLine bool // ... all names in one comma-separated Trailer header line ("A, B, C")
	// endComp: the end-of-stream frame in the body (gRPC-Web trailers, Connect end of stream) is itself compressed
	// (flag 0x81 / 0x03): legal for both protocols when a response compression was declared, never sent by
	// connect-go or grpc-go
	endComp bool
	// padDetails: grpc-status-details-bin is sent as padded base64
	padDetails bool
}

// detailsBin: the grpc-status-details-bin value; gRPC senders may pad the base64 text and receivers must accept both
func (s *respScript) detailsBin() string {
	v := refBase64RawStd(refStatusWire(s.errCode, s.errMsg, s.details))
	if s.padDetails {
		for len(v)%4 != 0 {
			v += "="
		}
	}
	return v
}

type pipeBackend struct {
	rec      backendRecord
	target   Protocol
	unary    bool
	codec    string
	bufSize  int
	script   *respScript
	skipRead bool
	// closeBody: the handler closes the request body when it is done with it (as connect-go and grpc-go do)
	closeBody bool
	// readFirst > 0: a full-duplex handler: it reads only this many bytes of the request, writes its whole
	// response, and reads the rest of the request afterwards
	readFirst int
	// hook, when set, is called at fixed points of the handler: 0 on entry, 1 after the first read of the
	// request, 2 after the first response message was written, 3 after the response was completed (before a
	// full-duplex handler reads the rest of the request)
	hook func(point int)
}

func (b *pipeBackend) at(point int) {
	if b.hook != nil {
		b.hook(point)
	}
}

// write modes (segmentation of the backend's response body)
const (
	wmFrame   = iota // one Write per frame / body
	wmSplit          // each frame split in two at splitAt
	wmBytes          // one byte per Write
	wmOneShot        // everything written so far is accumulated and written in a single Write at the end
	wmNoisy          // empty writes and Flush calls around every Write
)

type segWriter struct {
	w       http.ResponseWriter
	mode    int
	splitAt int
	pending []byte
}

func (sw *segWriter) write(b []byte) {
	switch sw.mode {
	case wmSplit:
		if sw.splitAt > 0 && sw.splitAt < len(b) {
			sw.w.Write(b[:sw.splitAt])
			sw.w.Write(b[sw.splitAt:])
			return
		}
		sw.w.Write(b)
	case wmBytes:
		for i := range b {
			sw.w.Write(b[i : i+1])
		}
	case wmOneShot:
		sw.pending = append(sw.pending, b...)
	case wmNoisy:
		sw.w.Write(nil)
		if f, ok := sw.w.(http.Flusher); ok {
			f.Flush()
		}
		sw.w.Write(b)
		sw.w.Write([]byte{})
		if f, ok := sw.w.(http.Flusher); ok {
			f.Flush()
		}
	default:
		sw.w.Write(b)
	}
}

func (sw *segWriter) finish() {
	if sw.mode == wmOneShot && len(sw.pending) > 0 {
		sw.w.Write(sw.pending)
		sw.pending = nil
	}
}

// writeSegmented writes an un-enveloped body the way the script's write mode says (split, byte-wise, with empty
// writes and Flush calls, ...).
func writeSegmented(w http.ResponseWriter, b []byte, s *respScript) {
	sw := &segWriter{w: w, mode: s.writeMode, splitAt: s.splitAt}
	if s.writeMode == wmFrame && s.splitAt > 0 {
		sw.mode = wmSplit
	}
	sw.write(b)
	sw.finish()
}

func writeSplit(w http.ResponseWriter, b []byte, splitAt int) {
	sw := &segWriter{w: w, mode: wmSplit, splitAt: splitAt}
	sw.write(b)
}

func refCodeName(c uint32) string {
	switch c {
	case 1:
		return "canceled"
	case 2:
		return "unknown"
	case 3:
		return "invalid_argument"
	case 4:
		return "deadline_exceeded"
	case 5:
		return "not_found"
	case 6:
		return "already_exists"
	case 7:
		return "permission_denied"
	case 8:
		return "resource_exhausted"
	case 9:
		return "failed_precondition"
	case 10:
		return "aborted"
	case 11:
		return "out_of_range"
	case 12:
		return "unimplemented"
	case 13:
		return "internal"
	case 14:
		return "unavailable"
	case 15:
		return "data_loss"
	case 16:
		return "unauthenticated"
	}
	return "code_" + strconv.Itoa(int(c))
}

// refDetail: one error detail (message type name and serialized bytes).
type refDetail struct {
	typ string
	val []byte
}

const refB64StdAlphabet = "ABCDEFGHIJKLMNOPQRSTUVWXYZabcdefghijklmnopqrstuvwxyz0123456789+/"

// refBase64RawStd: unpadded standard base64 (what Connect JSON and gRPC binary headers use).
func refBase64RawStd(b []byte) string {
	var out []byte
	for i := 0; i < len(b); i += 3 {
		var v uint32
		n := 0
		for j := 0; j < 3; j++ {
			v <<= 8
			if i+j < len(b) {
				v |= uint32(b[i+j])
				n++
			}
		}
		out = append(out, refB64StdAlphabet[v>>18&63], refB64StdAlphabet[v>>12&63])
		if n > 1 {
			out = append(out, refB64StdAlphabet[v>>6&63])
		}
		if n > 2 {
			out = append(out, refB64StdAlphabet[v&63])
		}
	}
	return string(out)
}

func refBase64RawStdDecode(s string) ([]byte, bool) {
	for len(s) > 0 && s[len(s)-1] == '=' {
		s = s[:len(s)-1]
	}
	var out []byte
	var acc uint32
	bits := 0
	for i := 0; i < len(s); i++ {
		v := strings.IndexByte(refB64StdAlphabet, s[i])
		if v < 0 {
			return nil, false
		}
		acc = acc<<6 | uint32(v)
		bits += 6
		if bits >= 8 {
			bits -= 8
			out = append(out, byte(acc>>uint(bits)))
		}
	}
	return out, true
}

// refStatusWire: google.rpc.Status on the wire, written from the protobuf encoding rules (all lengths < 128).
func refStatusWire(code uint32, msg string, details []refDetail) []byte {
	var b []byte
	if code != 0 {
		b = append(b, 0x08, byte(code))
	}
	if msg != "" {
		b = append(append(b, 0x12, byte(len(msg))), msg...)
	}
	for _, d := range details {
		url := "type.googleapis.com/" + d.typ
		var a []byte
		a = append(append(a, 0x0A, byte(len(url))), url...)
		if len(d.val) > 0 {
			a = append(append(a, 0x12, byte(len(d.val))), d.val...)
		}
		b = append(append(b, 0x1A, byte(len(a))), a...)
	}
	return b
}

// refStatusDetails reads the details back out of a serialized google.rpc.Status.
func refStatusDetails(b []byte) ([]refDetail, bool) {
	var out []refDetail
	for len(b) > 0 {
		if len(b) < 2 {
			return nil, false
		}
		tag, n := b[0], int(b[1])
		if tag == 0x08 {
			b = b[2:]
			continue
		}
		if len(b)-2 < n {
			return nil, false
		}
		body := b[2 : 2+n]
		b = b[2+n:]
		if tag != 0x1A {
			continue
		}
		var d refDetail
		for len(body) > 0 {
			if len(body) < 2 || len(body)-2 < int(body[1]) {
				return nil, false
			}
			t, m := body[0], int(body[1])
			switch t {
			case 0x0A:
				d.typ = strings.TrimPrefix(string(body[2:2+m]), "type.googleapis.com/")
			case 0x12:
				d.val = append([]byte(nil), body[2:2+m]...)
			}
			body = body[2+m:]
		}
		out = append(out, d)
	}
	return out, true
}

func sameDetails(a, b []refDetail) bool {
	if len(a) != len(b) {
		return false
	}
	eq := true
	for i := range a {
		eq = eq && a[i].typ == b[i].typ && bytesEq(a[i].val, b[i].val)
	}
	return eq
}

func refJSONError(code uint32, msg string) string {
	return refJSONErrorDetails(code, msg, nil)
}

func refJSONErrorDetails(code uint32, msg string, details []refDetail) string {
	s := `{"code":"` + refCodeName(code) + `"`
	if msg != "" {
		s += `,"message":"` + msg + `"`
	}
	if len(details) > 0 {
		s += `,"details":[`
		for i, d := range details {
			if i > 0 {
				s += ","
			}
			s += `{"type":"` + d.typ + `","value":"` + refBase64RawStd(d.val) + `"}`
		}
		s += "]"
	}
	return s + "}"
}

func (b *pipeBackend) ServeHTTP(w http.ResponseWriter, r *http.Request) {
	rec := &b.rec
	rec.calls++
	rec.method = r.Method
	rec.path = r.URL.Path
	rec.wirePath = r.URL.EscapedPath()
	rec.rawQuery = r.URL.RawQuery
	rec.proto = r.Proto
	rec.protoMajor = r.ProtoMajor
	rec.header = r.Header.Clone()
	rec.contentLen = r.ContentLength
	rec.ctx = r.Context()
	rec.writer = w
	b.at(0)
	if !b.skipRead && b.readFirst > 0 {
		first := make([]byte, b.readFirst)
		n, err := r.Body.Read(first)
		rec.body = append(rec.body, first[:n]...)
		if err != nil && err != io.EOF {
			rec.readErr = err
		}
		late := err == nil
		defer func() {
			b.at(3)
			if late {
				rest, err := readAllSized(r.Body, b.bufSize, 200)
				rec.body = append(rec.body, rest...)
				rec.readErr = err
			}
			if b.closeBody {
				r.Body.Close()
			}
		}()
	} else {
		if !b.skipRead {
			rec.body, rec.readErr = readAllSized(r.Body, b.bufSize, 200)
		}
		if b.closeBody {
			r.Body.Close()
		}
		defer b.at(3)
	}
	b.at(1)
	s := b.script
	if s == nil {
		return
	}
	h := w.Header()
	for k, v := range s.respHdrs {
		h[k] = v
	}
	enveloped := b.target == ProtocolGRPC || b.target == ProtocolGRPCWeb || (b.target == ProtocolConnect && !b.unary)
	if !enveloped {
		b.serveUnary(w, s)
		return
	}
	switch b.target {
	case ProtocolGRPC:
		h.Set("Content-Type", "application/grpc+"+b.codec)
	case ProtocolGRPCWeb:
		h.Set("Content-Type", "application/grpc-web+"+b.codec)
	default:
		h.Set("Content-Type", "application/connect+"+b.codec)
	}
	if s.comp {
		if b.target == ProtocolConnect {
			h.Set("Connect-Content-Encoding", "gzip")
		} else {
			h.Set("Grpc-Encoding", "gzip")
		}
	}
	status := strconv.Itoa(int(s.errCode))
	if s.trailersOnly && b.target != ProtocolConnect {
		h.Set("Grpc-Status", status)
		if s.errMsg != "" {
			h.Set("Grpc-Message", s.errMsg)
		}
		if len(s.details) > 0 {
			h.Set("Grpc-Status-Details-Bin", s.detailsBin())
		}
		for k, v := range s.trailerHdrs {
			h[k] = v
		}
		if s.declareLen {
			h.Set("Content-Length", "0")
		}
		w.WriteHeader(200)
		return
	}
	if b.target == ProtocolGRPC && s.announce {
		names := []string{"Grpc-Status", "Grpc-Message"}
		if len(s.details) > 0 {
			names = append(names, "Grpc-Status-Details-Bin")
		}
		for _, k := range sortedHeaderKeys(s.trailerHdrs) {
			if s.announceLow {
				k = strings.ToLower(k)
			}
			names = append(names, k)
		}
		if s.announceLine {
			h.Set("Trailer", strings.Join(names, ", "))
		} else {
			for _, k := range names {
				h.Add("Trailer", k)
			}
		}
	}
	if !s.noHead {
		w.WriteHeader(200)
	}
	n := len(s.msgs)
	if s.errCode != 0 && s.errAfter < n {
		n = s.errAfter
	}
	sw := &segWriter{w: w, mode: s.writeMode, splitAt: s.splitAt}
	if s.writeMode == wmFrame && s.splitAt > 0 {
		sw.mode = wmSplit
	}
	defer sw.finish()
	for i := 0; i < n; i++ {
		m := s.msgs[i]
		fl := byte(0)
		if m.compressed {
			fl = 1
		}
		sw.write(appendFrame(nil, fl, encodeMsg(b.codec, m)))
		if i == 0 {
			b.at(2)
		}
	}
	switch b.target {
	case ProtocolGRPC:
		pre := http.TrailerPrefix
		if s.announce {
			pre = ""
		}
		h.Set(pre+"Grpc-Status", status)
		if s.errMsg != "" {
			h.Set(pre+"Grpc-Message", s.errMsg)
		}
		if len(s.details) > 0 {
			h.Set(pre+"Grpc-Status-Details-Bin", s.detailsBin())
		}
		for k, v := range s.trailerHdrs {
			h[pre+k] = v
		}
		if n == 0 && s.noHead {
			w.WriteHeader(200)
		}
	case ProtocolGRPCWeb:
		blk := "grpc-status: " + status + "\r\n"
		if s.errMsg != "" {
			blk += "grpc-message: " + s.errMsg + "\r\n"
		}
		if len(s.details) > 0 {
			blk += "grpc-status-details-bin: " + s.detailsBin() + "\r\n"
		}
		for k, vs := range s.trailerHdrs {
			for _, v := range vs {
				blk += strings.ToLower(k) + ": " + v + "\r\n"
			}
		}
		if s.endComp {
			sw.write(appendFrame(nil, 0x81, refToyCompress([]byte(blk))))
		} else {
			sw.write(appendFrame(nil, 0x80, []byte(blk)))
		}
	default:
		js := "{"
		if s.errCode != 0 {
			js += `"error":` + refJSONErrorDetails(s.errCode, s.errMsg, s.details)
		}
		if len(s.trailerHdrs) > 0 {
			if s.errCode != 0 {
				js += ","
			}
			js += `"metadata":{`
			first := true
			for _, k := range sortedHeaderKeys(s.trailerHdrs) {
				if !first {
					js += ","
				}
				first = false
				js += `"` + k + `":[`
				for j, v := range s.trailerHdrs[k] {
					if j > 0 {
						js += ","
					}
					js += `"` + v + `"`
				}
				js += "]"
			}
			js += "}"
		}
		js += "}"
		if s.endComp {
			sw.write(appendFrame(nil, 3, refToyCompress([]byte(js))))
		} else {
			sw.write(appendFrame(nil, 2, []byte(js)))
		}
	}
}

func sortedHeaderKeys(h http.Header) []string {
	keys := make([]string, 0, len(h))
	for k := range h {
		keys = append(keys, k)
	}
	// insertion sort (tiny)
	for i := 1; i < len(keys); i++ {
		for j := i; j > 0 && keys[j] < keys[j-1]; j-- {
			keys[j], keys[j-1] = keys[j-1], keys[j]
		}
	}
	return keys
}

func (b *pipeBackend) serveUnary(w http.ResponseWriter, s *respScript) {
	h := w.Header()
	for k, v := range s.trailerHdrs {
		if b.target == ProtocolConnect {
			h["Trailer-"+k] = v
		}
	}
	if s.errCode != 0 {
		st, _ := refStatusFromRPC(s.errCode)
		if st == 0 {
			st = 500
		}
		h.Set("Content-Type", "application/json")
		body := []byte(refJSONErrorDetails(s.errCode, s.errMsg, s.details))
		if b.target == ProtocolREST {
			// a REST backend reports its error as a google.rpc.Status document
			if len(s.details) > 0 {
				verifOutside("details in REST backend error bodies (protojson Any) are outside the encoding")
			}
			body = []byte(`{"code":` + strconv.Itoa(int(s.errCode)) + `,"message":"` + s.errMsg + `"}`)
		}
		if s.comp && b.target == ProtocolConnect {
			// a Connect backend may compress its error document like any other unary response body
			body = refToyCompress(body)
			h.Set("Content-Encoding", "gzip")
		}
		if s.declareLen {
			h.Set("Content-Length", strconv.Itoa(len(body)))
		}
		w.WriteHeader(st)
		writeSegmented(w, body, s)
		return
	}
	h.Set("Content-Type", "application/"+b.codec)
	var body []byte
	if len(s.msgs) > 0 {
		m := s.msgs[0]
		m.compressed = s.comp
		body = encodeMsg(b.codec, m)
	}
	if s.comp {
		h.Set("Content-Encoding", "gzip")
	}
	if s.declareLen {
		h.Set("Content-Length", strconv.Itoa(len(body)))
	}
	if !s.noHead {
		w.WriteHeader(200)
	}
	sw := &segWriter{w: w, mode: s.writeMode, splitAt: s.splitAt}
	if s.writeMode == wmFrame && s.splitAt > 0 {
		sw.mode = wmSplit
	}
	sw.write(body)
	sw.finish()
}

// ---- client-side reference parse of the transcoder's response --------------------------------------

type clientOutcome struct {
	valid      bool // response is well-formed for the client's protocol
	why        string
	msgs       [][]byte
	code       uint32 // 0 = success
	message    string
	hasMsg     bool
	details    []refDetail // error details the client can read (nil when none / not readable: REST)
	badDetails bool
	ends       int // number of terminal dispositions seen
	trailer    http.Header
	// httpRejected: refused with a bare HTTP status before dispatch
	httpRejected bool
	dupStatus    bool
}

func splitTrailerBlock(blk []byte) (http.Header, bool) {
	out := http.Header{}
	for _, line := range strings.Split(string(blk), "\r\n") {
		if line == "" {
			continue
		}
		i := strings.IndexByte(line, ':')
		if i < 0 {
			return nil, false
		}
		out.Add(http.CanonicalHeaderKey(line[:i]), strings.TrimSpace(line[i+1:]))
	}
	return out, true
}

func refParseUint(s string) (uint32, bool) {
	if len(s) == 0 || len(s) > 9 {
		return 0, false
	}
	var n uint32
	for i := 0; i < len(s); i++ {
		if s[i] < '0' || s[i] > '9' {
			return 0, false
		}
		n = n*10 + uint32(s[i]-'0')
	}
	return n, true
}

func refPercentDecode(s string) (string, bool) {
	if !refPercentWellFormed([]byte(s)) {
		return "", false
	}
	var out []byte
	for i := 0; i < len(s); i++ {
		if s[i] == '%' {
			out = append(out, refHexVal(s[i+1])<<4|refHexVal(s[i+2]))
			i += 2
		} else {
			out = append(out, s[i])
		}
	}
	return string(out), true
}

// grpcStatusFrom extracts the terminal status from a header map (trailers or trailers-only headers).
func grpcStatusFrom(h http.Header, o *clientOutcome) {
	vals := h["Grpc-Status"]
	o.ends += len(vals)
	if len(vals) != 1 {
		return
	}
	c, ok := refParseUint(vals[0])
	if !ok {
		o.valid = false
		o.why = "grpc-status not a number"
		return
	}
	o.code = c
	if m := h.Get("Grpc-Message"); m != "" {
		d, ok := refPercentDecode(m)
		if !ok {
			o.valid = false
			o.why = "grpc-message badly escaped"
			return
		}
		o.message = d
		o.hasMsg = true
	}
	if bin := h.Get("Grpc-Status-Details-Bin"); bin != "" {
		raw, ok := refBase64RawStdDecode(bin)
		var ds []refDetail
		if ok {
			ds, ok = refStatusDetails(raw)
		}
		if !ok {
			o.badDetails = true
		}
		o.details = ds
	}
}

// jsonErrorDetails extracts the details from the canonical error JSON.
func jsonErrorDetails(b []byte) ([]refDetail, bool) {
	var e connectWireError
	c := &jsonCursor{b: b}
	in, err := jsonParseWireError(c, &e)
	if !in || err != nil {
		return nil, false
	}
	var out []refDetail
	for _, d := range e.Details {
		v, ok := refBase64RawStdDecode(d.Value)
		if !ok {
			return nil, false
		}
		out = append(out, refDetail{typ: d.Type, val: v})
	}
	return out, true
}

// jsonErrorFields extracts code/message from the canonical error JSON the model emits.
func jsonErrorFields(b []byte) (code uint32, msg string, ok bool) {
	var e connectWireError
	c := &jsonCursor{b: b}
	in, err := jsonParseWireError(c, &e)
	if !in || err != nil || c.pos != len(b) {
		return 0, "", false
	}
	return uint32(e.Code), e.Message, true
}

// refParseClientResponse decodes what the client received, by the client's own protocol rules.
func refParseClientResponse(cfg *pipeCfg, sink *fakeSink, dispatched bool) clientOutcome {
	o := clientOutcome{valid: true}
	fail := func(why string) clientOutcome {
		o.valid = false
		o.why = why
		return o
	}
	if sink.heads != 1 {
		return fail("not exactly one response head")
	}
	h := sink.headSnap
	ct := h.Get("Content-Type")
	codec := cfg.clientCodec
	if !dispatched && sink.status != 200 && strings.HasPrefix(ct, "text/plain") {
		// request rejected before any protocol engagement: a plain HTTP error, mapped by the HTTP->RPC table
		o.ends = 1
		o.httpRejected = true
		o.code = uint32(refStatusToRPC(sink.status))
		return o
	}
	switch cfg.client {
	case cfGRPC, cfGRPCWeb, cfConnectStream:
		prefix := "application/grpc+"
		compHdr := "Grpc-Encoding"
		if cfg.client == cfGRPCWeb {
			prefix = "application/grpc-web+"
		}
		if cfg.client == cfConnectStream {
			prefix = "application/connect+"
			compHdr = "Connect-Content-Encoding"
		}
		if sink.status != 200 {
			return fail("streaming protocols answer 200")
		}
		if ct != prefix+codec {
			return fail("content-type is not " + prefix + codec)
		}
		compDeclared := h.Get(compHdr) != ""
		if compDeclared && h.Get(compHdr) != "gzip" {
			return fail("unknown response compression declared")
		}
		if cfg.client != cfConnectStream {
			// trailers-only?
			if len(h["Grpc-Status"]) > 0 {
				grpcStatusFrom(h, &o)
				if len(sink.body) != 0 {
					return fail("trailers-only response with a body")
				}
				if cfg.client == cfGRPC {
					if len(sink.trailers()["Grpc-Status"]) > 0 {
						o.dupStatus = true // asserted separately (known finding: handler trailers after a transcoder-generated end)
					}
				}
				o.trailer = h
				return o
			}
		}
		frames, complete := refSplitFrames(sink.body)
		if !complete {
			return fail("body is not a sequence of complete frames")
		}
		for i, f := range frames {
			isEnd := false
			switch cfg.client {
			case cfGRPC:
				if f.flags != 0 && f.flags != 1 {
					return fail("invalid gRPC flag byte")
				}
			case cfGRPCWeb:
				if f.flags&0x7e != 0 {
					return fail("invalid gRPC-Web flag byte")
				}
				isEnd = f.flags&0x80 != 0
			default:
				if f.flags&0xfc != 0 {
					return fail("invalid Connect flag byte")
				}
				isEnd = f.flags&2 != 0
			}
			if isEnd {
				o.ends++
				if i != len(frames)-1 {
					return fail("data after the end frame")
				}
				payload := f.payload
				if f.flags&1 != 0 {
					if !compDeclared {
						return fail("compressed end frame without declared compression")
					}
					d, ok := refToyDecompress(payload)
					if !ok {
						return fail("end frame flagged compressed but bytes are not")
					}
					payload = d
				}
				if cfg.client == cfGRPCWeb {
					tr, ok := splitTrailerBlock(payload)
					if !ok {
						return fail("malformed trailer frame")
					}
					o.ends--
					grpcStatusFrom(tr, &o)
					o.trailer = tr
				} else {
					var se connectStreamEnd
					cur := &jsonCursor{b: payload}
					// encoder output ends with '\n'
					if len(payload) > 0 && payload[len(payload)-1] == '\n' {
						cur.b = payload[:len(payload)-1]
					}
					in, err := jsonParseStreamEnd(cur, &se)
					if !in || err != nil || cur.pos != len(cur.b) {
						return fail("end-stream frame is not the expected JSON")
					}
					if se.Error != nil {
						o.code = uint32(se.Error.Code)
						o.message = se.Error.Message
						o.hasMsg = true
						for _, d := range se.Error.Details {
							v, ok := refBase64RawStdDecode(d.Value)
							if !ok {
								o.badDetails = true
							}
							o.details = append(o.details, refDetail{typ: d.Type, val: v})
						}
					}
					o.trailer = se.Metadata
				}
				continue
			}
			if f.flags&1 != 0 && !compDeclared {
				return fail("compressed frame without declared compression")
			}
			m, ok := refDecodeMsg(codec, f.flags&1 != 0, f.payload)
			if !ok {
				return fail("frame payload does not decode with the client's codec/compression")
			}
			o.msgs = append(o.msgs, m)
		}
		if cfg.client == cfGRPC {
			tr := sink.trailers()
			grpcStatusFrom(tr, &o)
			o.trailer = tr
		}
		if o.ends != 1 {
			return fail("not exactly one terminal disposition")
		}
		return o
	default: // Connect unary POST/GET, REST
		o.ends = 1
		if cl := h.Get("Content-Length"); cl != "" {
			n, ok := refParseUint(cl)
			if !ok || int(n) != len(sink.body) {
				return fail("Content-Length differs from the body length")
			}
		}
		tr := http.Header{}
		for k, v := range h {
			if strings.HasPrefix(k, "Trailer-") {
				tr[k[len("Trailer-"):]] = v
			}
		}
		o.trailer = tr
		if sink.status == 200 {
			want := "application/" + codec
			if cfg.client == cfREST {
				want = "application/json"
				codec = CodecJSON
			}
			if ct != want {
				return fail("content-type is not " + want)
			}
			comp := h.Get("Content-Encoding")
			if comp != "" && comp != "gzip" {
				return fail("unknown Content-Encoding")
			}
			if len(sink.body) == 0 && codec != CodecJSON && comp == "" {
				o.msgs = [][]byte{{}}
				return o
			}
			m, ok := refDecodeMsg(codec, comp != "", sink.body)
			if !ok {
				return fail("body does not decode with the declared codec/compression")
			}
			o.msgs = [][]byte{m}
			return o
		}
		if ct != "application/json" {
			return fail("error response is not application/json")
		}
		if h.Get("Content-Encoding") != "" {
			return fail("error body declared compressed")
		}
		if cfg.client == cfREST {
			// Status JSON rendered by the toy codec as an opaque marker
			o.code = 2
			for c := uint32(1); c <= 16; c++ {
				if st, _ := refStatusFromRPC(c); st == sink.status {
					o.code = c
					break
				}
			}
			return o
		}
		c, msg, ok := jsonErrorFields(sink.body)
		if !ok {
			return fail("error body is not the expected JSON")
		}
		if c == 0 {
			return fail("error response with OK code")
		}
		o.code, o.message, o.hasMsg = c, msg, true
		if ds, ok := jsonErrorDetails(sink.body); ok {
			o.details = ds
		} else {
			o.badDetails = true
		}
		want, _ := refStatusFromRPC(c)
		if c > 16 {
			want = 500
		}
		if sink.status != want {
			return fail("HTTP status does not match the code table")
		}
		return o
	}
}

// ---- running one RPC -------------------------------------------------------------------------------

type pipeRun struct {
	cfg     *pipeCfg
	tr      *Transcoder
	backend *pipeBackend
	sink    *fakeSink
	body    *fakeBody
	req     *http.Request
	unknown *pipeBackend
	buildOK bool
}

// pipeRules: one REST binding with body "*" and a literal path (the in-reach REST subset).
const pipeRESTGetPath = "/g"

func pipeRules() []*annotations.HttpRule {
	return []*annotations.HttpRule{{
		Selector: pipeSvc + "." + pipeMethod,
		Pattern:  &annotations.HttpRule_Post{Post: pipeRESTPath},
		Body:     "*",
		// a GET binding without body or variables on a short path (REST GET clients)
		AdditionalBindings: []*annotations.HttpRule{{Pattern: &annotations.HttpRule_Get{Get: pipeRESTGetPath}}},
	}}
}

func newPipe(cfg *pipeCfg) *pipeRun {
	p := &pipeRun{cfg: cfg}
	refJSONRepeat = 1
	if cfg.jsonRepeat > 1 {
		refJSONRepeat = cfg.jsonRepeat
	}
	svc := newFakeService(pipeSvc)
	svc.addMethod(pipeMethod, cfg.kind, cfg.idem, cfg.hasIdem)
	target, codec, _ := refNegotiate(cfg)
	p.backend = &pipeBackend{target: target, unary: cfg.kind == fkUnary, codec: codec, bufSize: 16}
	fc := &fakeConfig{protocols: cfg.svcProtos, codecs: cfg.svcCodecs, maxMsg: cfg.maxMsg, maxGetURL: cfg.maxGetURL, unstable: cfg.unstable, expand: cfg.expand, decompCount: cfg.decompCount, jsonRepeat: cfg.jsonRepeat, failMarshal: cfg.failMarshal}
	if cfg.svcComp {
		fc.compressors = []string{CompressionGzip}
	}
	rules := pipeRules()
	tr, err := newFakeTranscoder(svc, p.backend, fc, rules, nil)
	if err != nil {
		return p
	}
	p.buildOK = true
	p.tr = tr
	p.sink = newFakeSink()
	p.body = &fakeBody{}
	return p
}

func (p *pipeRun) serve(msgs []wireMsg) {
	p.req = buildClientRequest(p.cfg, msgs, p.body)
	p.tr.ServeHTTP(p.sink, p.req)
}

func sameMsgs(a [][]byte, b []wireMsg) bool {
	if len(a) != len(b) {
		return false
	}
	eq := true
	for i := range a {
		eq = eq && bytesEq(a[i], b[i].abstract)
	}
	return eq
}
