package vanguard

import (
	"net/http"
	"net/url"
	"strings"

	"google.golang.org/genproto/googleapis/api/annotations"
)

// ---- reference matcher (written from google/api/http.proto, independent of router.go) --------

type refBinding struct {
	method   string
	template string
	segs     []string // "*", "**" or literal (as written in the template, unescaped once)
	verb     string
	vars     []refVar
	literal  bool // no wildcard at all
	target   *routeTarget
}

type refVar struct {
	start, end int // segment range; end == -1: to the end
}

// refParseSimpleTemplate handles the corpus' templates: /seg/seg...[:verb] where seg is a literal, *, **,
// {name}, {name=sub/segs}. (The grammar itself is C17's subject; the corpus is fixed and well-formed.)
func refParseSimpleTemplate(t string) refBinding {
	b := refBinding{template: t, literal: true}
	body := t[1:]
	if i := strings.LastIndexByte(body, ':'); i >= 0 && !strings.Contains(body[i:], "}") && !strings.Contains(body[i:], "/") {
		b.verb = body[i+1:]
		body = body[:i]
	}
	depth := 0
	cur := ""
	var parts []string
	for i := 0; i < len(body); i++ {
		c := body[i]
		if c == '{' {
			depth++
		}
		if c == '}' {
			depth--
		}
		if c == '/' && depth == 0 {
			parts = append(parts, cur)
			cur = ""
			continue
		}
		cur += string(c)
	}
	parts = append(parts, cur)
	for _, part := range parts {
		if part[0] != '{' {
			if part == "*" || part == "**" {
				b.literal = false
			}
			b.segs = append(b.segs, part)
			continue
		}
		b.literal = false
		inner := part[1 : len(part)-1]
		v := refVar{start: len(b.segs)}
		if eq := strings.IndexByte(inner, '='); eq >= 0 {
			for _, s := range strings.Split(inner[eq+1:], "/") {
				b.segs = append(b.segs, s)
			}
		} else {
			b.segs = append(b.segs, "*")
		}
		v.end = len(b.segs)
		if b.segs[len(b.segs)-1] == "**" {
			v.end = -1
		}
		b.vars = append(b.vars, v)
	}
	return b
}

// refDecodeOnce percent-decodes s once; multi keeps %2F encoded. ok=false on malformed escapes.
func refDecodeOnce(s string, multi bool) (string, bool) {
	if !refPercentWellFormed([]byte(s)) {
		return "", false
	}
	var out []byte
	for i := 0; i < len(s); i++ {
		if s[i] != '%' {
			out = append(out, s[i])
			continue
		}
		c := refHexVal(s[i+1])<<4 | refHexVal(s[i+2])
		if multi && c == '/' {
			out = append(out, '%', '2', 'F')
		} else {
			out = append(out, c)
		}
		i += 2
	}
	return string(out), true
}

var refGreyZone bool

// refMatch: does the binding's template match the raw (still encoded) path? captures decoded once.
func refMatch(b *refBinding, rawPath string) (bool, []string) {
	if len(rawPath) == 0 || rawPath[0] != '/' {
		return false, nil
	}
	rsegs := strings.Split(rawPath[1:], "/")
	last := rsegs[len(rsegs)-1]
	verb := ""
	if i := strings.IndexByte(last, ':'); i >= 0 {
		verb = last[i+1:]
		rsegs[len(rsegs)-1] = last[:i]
	}
	if verb != b.verb {
		return false, nil
	}
	ti := 0
	for ; ti < len(b.segs); ti++ {
		if b.segs[ti] == "**" {
			if ti >= len(rsegs) {
				refGreyZone = true // "**" against zero remaining segments: not asserted either way
				return false, nil
			}
			break
		}
		if ti >= len(rsegs) {
			return false, nil
		}
		if b.segs[ti] == "*" {
			continue
		}
		dec, ok := refDecodeOnce(rsegs[ti], false)
		if !ok || dec != b.segs[ti] {
			return false, nil
		}
	}
	if ti == len(b.segs) && len(rsegs) != len(b.segs) {
		return false, nil
	}
	var caps []string
	for _, v := range b.vars {
		end := v.end
		multi := end == -1 || end-v.start > 1
		if end == -1 {
			end = len(rsegs)
		}
		var parts []string
		for i := v.start; i < end && i < len(rsegs); i++ {
			dec, ok := refDecodeOnce(rsegs[i], multi)
			if !ok {
				return false, nil
			}
			parts = append(parts, dec)
		}
		caps = append(caps, strings.Join(parts, "/"))
	}
	return true, caps
}

// ---- corpus -----------------------------------------------------------------------------------

type routeSpec struct {
	method, template string
}

var routeCorpus = [][]routeSpec{
	{{"GET", "/a/b"}, {"GET", "/a/*"}, {"GET", "/a/**"}},
	{{"GET", "/v1/{name}"}, {"POST", "/v1/{name}"}, {"GET", "/v1/x"}},
	{{"GET", "/v1/{name=s/*}"}, {"GET", "/v1/{name=s/*}:go"}, {"DELETE", "/v1/s/t"}},
	{{"GET", "/r/{name=**}"}, {"PUT", "/r/x/y"}},
	{{"POST", "/x:v"}, {"GET", "/x"}, {"PATCH", "/{name}:v"}},
	{{"GET", "/a%2Db/c"}, {"GET", "/{name}/c"}},
	// a literal that is one character a client may send raw or percent-encoded ('@'), next to a wildcard
	{{"GET", "/%40"}, {"GET", "/{name}"}, {"GET", "/%40/k"}},
}

// literal segments worth trying per table (its own literals, with and without verbs)
var routeLiterals = [][]string{
	{"a", "b"},
	{"v1", "x"},
	{"v1", "s", "t", "t:go"},
	{"r", "x", "y"},
	{"x", "x:v", "q:v"},
	{"a-b", "c"},
	{"@", "%40", "k"},
}

func buildTrie(specs []routeSpec, order int) (*routeTrie, []refBinding, bool) {
	trie := &routeTrie{}
	svc := newFakeService("pkg.R")
	perm := permutation(len(specs), order)
	refs := make([]refBinding, len(specs))
	for _, i := range perm {
		sp := specs[i]
		m := svc.addMethod("M"+string(rune('a'+i)), fkUnary, 0, false)
		conf := &methodConfig{descriptor: m, methodPath: methodPath(m)}
		rule := &annotations.HttpRule{}
		switch sp.method {
		case "GET":
			rule.Pattern = &annotations.HttpRule_Get{Get: sp.template}
		case "POST":
			rule.Pattern = &annotations.HttpRule_Post{Post: sp.template}
		case "PUT":
			rule.Pattern = &annotations.HttpRule_Put{Put: sp.template}
		case "DELETE":
			rule.Pattern = &annotations.HttpRule_Delete{Delete: sp.template}
		default:
			rule.Pattern = &annotations.HttpRule_Patch{Patch: sp.template}
		}
		target, err := trie.addRoute(conf, rule)
		if err != nil {
			return nil, nil, false
		}
		refs[i] = refParseSimpleTemplate(sp.template)
		refs[i].method = sp.method
		refs[i].target = target
		// literals in the reference are compared decoded
		for j, s := range refs[i].segs {
			if s != "*" && s != "**" {
				d, _ := refDecodeOnce(s, false)
				refs[i].segs[j] = d
			}
		}
	}
	return trie, refs, true
}

func permutation(n, k int) []int {
	idx := make([]int, n)
	for i := range idx {
		idx[i] = i
	}
	// k-th permutation by factorial number system
	out := make([]int, 0, n)
	f := 1
	for i := 2; i < n; i++ {
		f *= i
	}
	for i := n - 1; i >= 0; i-- {
		j := 0
		if f > 0 {
			j = k / f
			k = k % f
		}
		out = append(out, idx[j])
		idx = append(idx[:j], idx[j+1:]...)
		if i > 0 {
			f /= i
		}
	}
	return out
}

func factorial(n int) int {
	f := 1
	for i := 2; i <= n; i++ {
		f *= i
	}
	return f
}

// validRawPath: what net/http guarantees before a handler runs: well-formed escapes, no control bytes,
// no '?' or '#' (they end the path), no space.
func validRawPath(p []byte) bool {
	ok := refPercentWellFormed(p)
	for _, c := range p {
		ok = ok && c > ' ' && c < 0x7f && c != '?' && c != '#'
		// bytes RFC 3986 does not allow raw in a path (Go then re-escapes the whole path and the
		// distinction between ':' and %3A is lost before any handler runs): outside the claim
		ok = ok && c != '<' && c != '>' && c != '"' && c != '\\' && c != '^' && c != '`' && c != '{' && c != '|' && c != '}'
	}
	return ok
}

// hC06Route: for every table of the corpus in every registration order and every raw path within the
// bound, the real trie (reached through the URL fields the way net/http fills them) dispatches exactly
// the binding the reference matcher selects, with captures decoded once.
func hC06Route() {
	ci := verifChoose("table", len(routeCorpus))
	specs := routeCorpus[ci]
	order := 0
	if verifTier() == 1 {
		order = verifChoose("order", factorial(len(specs)))
	}
	quickAltOrder := factorial(len(specs)) - 1 // quick: first or last permutation, alternating with the path shape
	trie, refs, ok := buildTrie(specs, order)
	verifAssert(ok, "corpus table accepted")
	if !ok {
		return
	}
	// raw path: "/" + up to 3 segments; each segment: one of the table's own literals / a symbolic 2-3 byte string
	nseg := verifChoose("segments", 3) + 1
	lits := routeLiterals[ci]
	if verifTier() == 0 && nseg%2 == 0 {
		order = quickAltOrder
		trie, refs, ok = buildTrie(specs, order)
		if !ok {
			return
		}
	}
	raw := []byte{}
	symIdx := verifChoose("symbolicSegment", nseg) // quick: one segment is symbolic, the others come from the table's literals
	for i := 0; i < nseg; i++ {
		raw = append(raw, '/')
		if i != symIdx && verifTier() == 0 {
			raw = append(raw, lits[verifChoose("lit", len(lits))]...)
			continue
		}
		kinds := 4
		if verifTier() == 0 {
			kinds = 3
		}
		switch verifChoose("segKind", kinds) {
		case 2:
			// an empty segment ("//"): nothing is appended
		case 0:
			raw = append(raw, nondetBytes("seg", 1)...)
		case 1:
			esc := nondetBytes("esc", 2) // an escape triple %XX with symbolic hex digits, optionally followed by hex-looking text
			raw = append(raw, '%', esc[0], esc[1])
			raw = append(raw, []string{"", "2F"}[verifChoose("escSuffix", 2)]...)
		default:
			if verifTier() == 1 {
				raw = append(raw, lits[verifChoose("lit", len(lits))]...)
			} else {
				raw = append(raw, nondetBytes("seg", 2)...)
			}
		}
	}
	verifAssume(validRawPath(raw) && raw[len(raw)-1] != ':') // a trailing ':' (empty verb) is left open
	for _, c := range raw[1:] {
		_ = c
	}
	// segments must not contain '/' except the separators we put
	slashes := 0
	for _, c := range raw {
		if c == '/' {
			slashes++
		}
	}
	verifAssume(slashes == nseg)
	methodsTried := []string{"GET", "POST", "HEAD", "PUT", "DELETE", "PATCH"}
	nm := 2
	if verifTier() == 1 {
		nm = 6
	}
	method := methodsTried[verifChoose("method", nm)]

	// what net/http hands to the handler (net/url.setPath)
	path, err := url.PathUnescape(string(raw))
	verifAssume(err == nil)
	u := &url.URL{Path: path}
	if u.EscapedPath() != string(raw) {
		u.RawPath = string(raw)
	}
	// the real ServeHTTP -> URL -> trie composition
	op := &operation{request: &http.Request{Method: method, URL: u}}
	op.client.protocol = restClientProtocol{}
	rerr := op.resolveMethod(&Transcoder{restRoutes: *trie})
	target, vars := op.restTarget, op.restVars
	var methods []string
	if herr, isHTTP := rerr.(*httpError); isHTTP && herr.code == 405 {
		methods = strings.Split(herr.header.Get("Allow"), ",")
	}

	// reference
	refGreyZone = false
	var matching []*refBinding
	for i := range refs {
		if ok, _ := refMatch(&refs[i], string(raw)); ok {
			matching = append(matching, &refs[i])
		}
	}
	if refGreyZone {
		verifReach("grey-doublestar-zero-segments")
		return
	}
	verifObsBool("dispatched", target != nil)
	verifObsInt("matching", int64(len(matching)))
	if len(matching) == 0 {
		verifReach("no-template-matches")
		verifAssert(target == nil && len(methods) == 0, "C06: a path no template matches is not found")
		return
	}
	oneTemplate := true
	anyLiteral := false
	for _, m := range matching {
		oneTemplate = oneTemplate && m.template == matching[0].template
		anyLiteral = anyLiteral || m.literal
	}
	if target != nil {
		verifReach("dispatched")
		var hit *refBinding
		for i := range refs {
			if refs[i].target == target {
				hit = &refs[i]
			}
		}
		verifAssert(hit != nil, "C06: dispatched target is a registered binding")
		if hit == nil {
			return
		}
		okm, caps := refMatch(hit, string(raw))
		verifAssert(okm && hit.method == method, "C06: dispatched only if that binding's template matches the raw path and its method equals the request's")
		if okm {
			verifAssert(len(vars) == len(caps), "C06: one value per template variable")
			for i := range vars {
				if i < len(caps) {
					verifAssert(vars[i].value == caps[i], "C06: captures are the raw segments percent-decoded exactly once (%2F kept in multi-segment captures)")
				}
			}
		}
		if anyLiteral {
			verifAssert(hit.literal, "C06: an all-literal template takes precedence over templates with wildcards")
		}
		return
	}
	// not dispatched although some template matches the path
	verifReach("path-matches-but-not-dispatched")
	if oneTemplate {
		has := false
		for _, m := range matching {
			has = has || m.method == method
		}
		verifAssert(!has, "C06: when the matching template has a binding for the request's method it is dispatched")
		verifAssert(len(methods) > 0, "C06: otherwise 405 with an Allow list")
		for _, m := range methods {
			found := false
			for _, b := range matching {
				found = found || b.method == m
			}
			verifAssert(found, "C06: Allow names only methods the matching template has")
		}
	}
}

// hC06RPC: RPC-style paths resolve to exactly the method they name (symbolic path tail).
func hC06RPC() {
	svc := newFakeService("p.S")
	ma := svc.addMethod("Ab", fkUnary, 0, false)
	mb := svc.addMethod("Abc", fkUnary, 0, false)
	tr := &Transcoder{methods: map[string]*methodConfig{}}
	for _, m := range []*fakeMethod{ma, mb} {
		tr.methods[methodPath(m)] = &methodConfig{descriptor: m, methodPath: methodPath(m)}
	}
	tail := nondetBytesUpTo("tail", 4)
	path := "/p.S/" + string(tail)
	op := &operation{request: &http.Request{Method: "POST", URL: &url.URL{Path: path}}}
	op.client.protocol = grpcClientProtocol{}
	err := op.resolveMethod(tr)
	if err == nil {
		verifReach("resolved")
		verifAssert(op.methodConf != nil && op.methodConf.methodPath == path, "C06: an RPC path resolves to exactly the method it names")
	} else {
		verifReach("not-found")
		verifAssert(path != "/p.S/Ab" && path != "/p.S/Abc", "C06: a registered RPC path is found")
	}
}

// hC06AllowOrder: the 405 answer for a path whose template has several methods names the same methods in the
// same order every time: the outcome of a request is a function of the request (C15), not of the order in
// which a Go map happens to be ranged over. The engine explores the map iteration orders of both calls; the
// native twin repeats the comparison 200 times.
func hC06AllowOrder() {
	specs := []routeSpec{{"GET", "/v1/{name}"}, {"POST", "/v1/{name}"}, {"DELETE", "/v1/{name}"}}
	trie, _, ok := buildTrie(specs, 0)
	verifAssert(ok, "corpus table accepted")
	if !ok {
		return
	}
	allow := func() string {
		op := &operation{request: &http.Request{Method: "PUT", URL: &url.URL{Path: "/v1/q"}}}
		op.client.protocol = restClientProtocol{}
		verifFixedMapOrder(false)
		rerr := op.resolveMethod(&Transcoder{restRoutes: *trie})
		verifFixedMapOrder(true)
		if herr, isHTTP := rerr.(*httpError); isHTTP && herr.code == 405 {
			return herr.header.Get("Allow")
		}
		return "?"
	}
	a, b := allow(), allow()
	verifObsStr("allow", a)
	verifReach("method-not-allowed-twice")
	verifAssert(a != "?" && b != "?", "C06: a path whose template lacks the request's method gets 405 with an Allow header")
	verifAssert(a == b, "C06: the Allow header of a 405 answer does not depend on map iteration order (same request, same answer)")
	n := 0
	for _, m := range strings.Split(a, ",") {
		if m == "GET" || m == "POST" || m == "DELETE" {
			n++
		}
	}
	verifAssert(n == 3 && len(strings.Split(a, ",")) == 3, "C06: Allow names exactly the methods the template has")
}
