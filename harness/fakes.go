package vanguard

// Fake schemas, toy codecs and a toy compressor, plugged in through the library's own
// extension points (Codec / connect.Compressor / TypeResolver / ServiceDescriptor interfaces).
// They are ordinary Go: the engine interprets them, the native twin compiles them.

import (
	"errors"
	"google.golang.org/genproto/googleapis/rpc/status"
	"io"
	"net/http"
	"strings"

	"connectrpc.com/connect"
	"google.golang.org/genproto/googleapis/api/annotations"
	"google.golang.org/protobuf/encoding/protojson"
	"google.golang.org/protobuf/proto"
	"google.golang.org/protobuf/reflect/protoreflect"
	"google.golang.org/protobuf/reflect/protoregistry"
	"google.golang.org/protobuf/types/descriptorpb"
)

// ---- descriptors -----------------------------------------------------------

type fakeField struct {
	protoreflect.FieldDescriptor
	name     string
	jsonName string
	kind     protoreflect.Kind
	repeated bool
	msg      *fakeMsgDesc
	enum     *fakeEnum
}

func (f *fakeField) Enum() protoreflect.EnumDescriptor {
	if f.enum == nil {
		return nil
	}
	return f.enum
}

func (f *fakeField) Name() protoreflect.Name { return protoreflect.Name(f.name) }
func (f *fakeField) JSONName() string {
	if f.jsonName != "" {
		return f.jsonName
	}
	return f.name
}
func (f *fakeField) Kind() protoreflect.Kind { return f.kind }
func (f *fakeField) Cardinality() protoreflect.Cardinality {
	if f.repeated {
		return protoreflect.Repeated
	}
	return protoreflect.Optional
}
func (f *fakeField) IsList() bool { return f.repeated }
func (f *fakeField) IsMap() bool  { return false }
func (f *fakeField) Message() protoreflect.MessageDescriptor {
	if f.msg == nil {
		return nil
	}
	return f.msg
}

// fakeEnum: an enum descriptor with a few named numbers.
type fakeEnumValue struct {
	protoreflect.EnumValueDescriptor
	name string
	num  protoreflect.EnumNumber
}

func (v *fakeEnumValue) Name() protoreflect.Name         { return protoreflect.Name(v.name) }
func (v *fakeEnumValue) Number() protoreflect.EnumNumber { return v.num }

type fakeEnumValues struct {
	protoreflect.EnumValueDescriptors
	list []*fakeEnumValue
}

func (vs *fakeEnumValues) Len() int { return len(vs.list) }
func (vs *fakeEnumValues) ByName(n protoreflect.Name) protoreflect.EnumValueDescriptor {
	for _, v := range vs.list {
		if v.name == string(n) {
			return v
		}
	}
	return nil
}
func (vs *fakeEnumValues) ByNumber(n protoreflect.EnumNumber) protoreflect.EnumValueDescriptor {
	for _, v := range vs.list {
		if v.num == n {
			return v
		}
	}
	return nil
}

type fakeEnum struct {
	protoreflect.EnumDescriptor
	name   string
	values *fakeEnumValues
}

func (e *fakeEnum) FullName() protoreflect.FullName           { return protoreflect.FullName(e.name) }
func (e *fakeEnum) Values() protoreflect.EnumValueDescriptors { return e.values }

type fakeFields struct {
	protoreflect.FieldDescriptors
	list []*fakeField
}

func (f *fakeFields) Len() int                               { return len(f.list) }
func (f *fakeFields) Get(i int) protoreflect.FieldDescriptor { return f.list[i] }
func (f *fakeFields) ByName(n protoreflect.Name) protoreflect.FieldDescriptor {
	for _, fd := range f.list {
		if fd.name == string(n) {
			return fd
		}
	}
	return nil
}
func (f *fakeFields) ByJSONName(n string) protoreflect.FieldDescriptor {
	for _, fd := range f.list {
		if fd.JSONName() == n {
			return fd
		}
	}
	return nil
}

type fakeMsgDesc struct {
	protoreflect.MessageDescriptor
	name   string
	fields *fakeFields
}

func (d *fakeMsgDesc) FullName() protoreflect.FullName { return protoreflect.FullName(d.name) }
func (d *fakeMsgDesc) Name() protoreflect.Name {
	return protoreflect.Name(d.name[strings.LastIndexByte(d.name, '.')+1:])
}
func (d *fakeMsgDesc) Fields() protoreflect.FieldDescriptors { return d.fields }

func newFakeMsgDesc(name string, fields ...*fakeField) *fakeMsgDesc {
	return &fakeMsgDesc{name: name, fields: &fakeFields{list: fields}}
}

type fakeMethod struct {
	protoreflect.MethodDescriptor
	name    string
	svc     *fakeService
	in, out *fakeMsgDesc
	opts    *descriptorpb.MethodOptions
	cStream bool
	sStream bool
}

func (m *fakeMethod) Name() protoreflect.Name { return protoreflect.Name(m.name) }
func (m *fakeMethod) FullName() protoreflect.FullName {
	return protoreflect.FullName(m.svc.name + "." + m.name)
}
func (m *fakeMethod) Parent() protoreflect.Descriptor        { return m.svc }
func (m *fakeMethod) Input() protoreflect.MessageDescriptor  { return m.in }
func (m *fakeMethod) Output() protoreflect.MessageDescriptor { return m.out }
func (m *fakeMethod) Options() protoreflect.ProtoMessage     { return m.opts }
func (m *fakeMethod) IsStreamingClient() bool                { return m.cStream }
func (m *fakeMethod) IsStreamingServer() bool                { return m.sStream }

type fakeMethods struct {
	protoreflect.MethodDescriptors
	list []*fakeMethod
}

func (m *fakeMethods) Len() int                                { return len(m.list) }
func (m *fakeMethods) Get(i int) protoreflect.MethodDescriptor { return m.list[i] }

type fakeService struct {
	protoreflect.ServiceDescriptor
	name    string
	methods *fakeMethods
	file    protoreflect.FileDescriptor // nil: a service descriptor without parent file
}

func (s *fakeService) ParentFile() protoreflect.FileDescriptor {
	if s.file == nil {
		return nil
	}
	return s.file
}

func (s *fakeService) FullName() protoreflect.FullName         { return protoreflect.FullName(s.name) }
func (s *fakeService) Methods() protoreflect.MethodDescriptors { return s.methods }

// stream kinds
const (
	fkUnary = iota
	fkClient
	fkServer
	fkBidi
)

func newFakeService(name string) *fakeService {
	return &fakeService{name: name, methods: &fakeMethods{}}
}

func (s *fakeService) addMethod(name string, kind int, idem descriptorpb.MethodOptions_IdempotencyLevel, hasIdem bool) *fakeMethod {
	in := newFakeMsgDesc(s.name+"."+name+"Request", &fakeField{name: "name", kind: protoreflect.StringKind}, &fakeField{name: "id", kind: protoreflect.StringKind})
	return s.addMethodIn(name, kind, idem, hasIdem, in)
}

// fakeHTTPBodyDesc has the name and the two fields of google.api.HttpBody that the REST binding looks at.
func fakeHTTPBodyDesc() *fakeMsgDesc {
	return newFakeMsgDesc("google.api.HttpBody", &fakeField{name: "content_type", jsonName: "contentType", kind: protoreflect.StringKind}, &fakeField{name: "data", kind: protoreflect.BytesKind})
}

func (s *fakeService) addMethodIn(name string, kind int, idem descriptorpb.MethodOptions_IdempotencyLevel, hasIdem bool, in *fakeMsgDesc) *fakeMethod {
	out := newFakeMsgDesc(s.name + "." + name + "Response")
	opts := &descriptorpb.MethodOptions{}
	if hasIdem {
		lvl := idem
		opts.IdempotencyLevel = &lvl
	}
	m := &fakeMethod{name: name, svc: s, in: in, out: out, opts: opts,
		cStream: kind == fkClient || kind == fkBidi, sStream: kind == fkServer || kind == fkBidi}
	s.methods.list = append(s.methods.list, m)
	return m
}

// ---- messages ----------------------------------------------------------------

// fakeMsg is an abstract message: a byte string (what the toy codecs carry).
type fakeMsg struct {
	protoreflect.Message
	desc *fakeMsgDesc
	data []byte
	set  bool
	// string fields by position in desc.fields (REST binding harnesses)
	fvals [fakeMaxFields]string
	fset  [fakeMaxFields]bool
	// scalar (bool / integer / enum) fields keep their value here, as 64 bits
	fnum [fakeMaxFields]uint64
	// repeated string fields keep their elements here
	flist [fakeMaxFields][]string
	// bytes fields keep the very slice they were given (like generated and dynamic messages do: no copy)
	fbytes [fakeMaxFields][]byte
}

// fakeList is the protoreflect.List view of one repeated string field of a fakeMsg.
type fakeList struct {
	protoreflect.List
	m *fakeMsg
	i int
}

func (l *fakeList) Len() int { return len(l.m.flist[l.i]) }

// NewElement / Append of message-typed lists: elements are kept as placeholders (their content is reflection
// territory; what matters here is that building and appending an element works like on real lists).
func (l *fakeList) NewElement() protoreflect.Value {
	fd := l.m.desc.fields.list[l.i]
	if fd.msg == nil {
		return protoreflect.ValueOfString("")
	}
	return protoreflect.ValueOfMessage(&fakeMsg{desc: fd.msg})
}
func (l *fakeList) Get(k int) protoreflect.Value {
	return protoreflect.ValueOfString(l.m.flist[l.i][k])
}
func (l *fakeList) Append(v protoreflect.Value) {
	if l.m.desc.fields.list[l.i].msg != nil {
		_ = v.Message() // (panics, like the real list, when the value is not a message)
		l.m.flist[l.i] = append(l.m.flist[l.i], "<message>")
	} else {
		l.m.flist[l.i] = append(l.m.flist[l.i], v.String())
	}
	l.m.fset[l.i] = true
}
func (l *fakeList) IsValid() bool { return true }

// NewField: a new, empty value for a composite field (a list for repeated fields, a message otherwise), not yet
// stored in the message - as protoreflect.Message.NewField specifies.
func (m *fakeMsg) NewField(fd protoreflect.FieldDescriptor) protoreflect.Value {
	i := m.fieldIndex(fd)
	if i < 0 {
		panic("fakeMsg.NewField: unknown field")
	}
	ff := m.desc.fields.list[i]
	if fd.IsList() {
		return protoreflect.ValueOfList(&fakeList{m: &fakeMsg{desc: m.desc}, i: i})
	}
	if ff.msg != nil {
		return protoreflect.ValueOfMessage(&fakeMsg{desc: ff.msg})
	}
	return protoreflect.ValueOfString("")
}

// Mutable: only repeated fields (the list that Append extends); like the real implementations it panics for
// fields that have no mutable composite value.
func (m *fakeMsg) Mutable(fd protoreflect.FieldDescriptor) protoreflect.Value {
	i := m.fieldIndex(fd)
	if i < 0 || !fd.IsList() {
		panic("fakeMsg.Mutable: field is not a list")
	}
	return protoreflect.ValueOfList(&fakeList{m: m, i: i})
}

const fakeMaxFields = 2

func (m *fakeMsg) fieldIndex(fd protoreflect.FieldDescriptor) int {
	ff, ok := fd.(*fakeField)
	if !ok || m.desc == nil {
		return -1
	}
	for i, f := range m.desc.fields.list {
		if f == ff && i < fakeMaxFields {
			return i
		}
	}
	return -1
}

func (m *fakeMsg) Get(fd protoreflect.FieldDescriptor) protoreflect.Value {
	i := m.fieldIndex(fd)
	if i < 0 {
		panic("fakeMsg.Get: unknown field")
	}
	if fd.IsList() {
		return protoreflect.ValueOfList(&fakeList{m: m, i: i})
	}
	switch fd.Kind() {
	case protoreflect.BytesKind:
		if m.fbytes[i] != nil {
			return protoreflect.ValueOfBytes(m.fbytes[i])
		}
		return protoreflect.ValueOfBytes([]byte(m.fvals[i]))
	case protoreflect.BoolKind:
		return protoreflect.ValueOfBool(m.fnum[i] != 0)
	case protoreflect.Int32Kind, protoreflect.Sint32Kind, protoreflect.Sfixed32Kind:
		return protoreflect.ValueOfInt32(int32(m.fnum[i]))
	case protoreflect.Int64Kind, protoreflect.Sint64Kind, protoreflect.Sfixed64Kind:
		return protoreflect.ValueOfInt64(int64(m.fnum[i]))
	case protoreflect.Uint32Kind, protoreflect.Fixed32Kind:
		return protoreflect.ValueOfUint32(uint32(m.fnum[i]))
	case protoreflect.Uint64Kind, protoreflect.Fixed64Kind:
		return protoreflect.ValueOfUint64(m.fnum[i])
	case protoreflect.EnumKind:
		return protoreflect.ValueOfEnum(protoreflect.EnumNumber(int32(m.fnum[i])))
	}
	return protoreflect.ValueOfString(m.fvals[i])
}

func (m *fakeMsg) Set(fd protoreflect.FieldDescriptor, v protoreflect.Value) {
	i := m.fieldIndex(fd)
	if i < 0 {
		panic("fakeMsg.Set: unknown field")
	}
	switch fd.Kind() {
	case protoreflect.BytesKind:
		m.fbytes[i] = v.Bytes()
		m.fvals[i] = string(m.fbytes[i])
	case protoreflect.BoolKind:
		m.fnum[i] = 0
		if v.Bool() {
			m.fnum[i] = 1
		}
	case protoreflect.Int32Kind, protoreflect.Sint32Kind, protoreflect.Sfixed32Kind,
		protoreflect.Int64Kind, protoreflect.Sint64Kind, protoreflect.Sfixed64Kind:
		m.fnum[i] = uint64(v.Int())
	case protoreflect.Uint32Kind, protoreflect.Fixed32Kind, protoreflect.Uint64Kind, protoreflect.Fixed64Kind:
		m.fnum[i] = v.Uint()
	case protoreflect.EnumKind:
		m.fnum[i] = uint64(int64(v.Enum()))
	default:
		m.fvals[i] = v.String()
	}
	m.fset[i] = true
}

func (m *fakeMsg) Has(fd protoreflect.FieldDescriptor) bool {
	i := m.fieldIndex(fd)
	return i >= 0 && m.fset[i]
}

func (m *fakeMsg) anyField() bool {
	any := false
	for _, s := range m.fset {
		any = any || s
	}
	return any
}

func (m *fakeMsg) ProtoReflect() protoreflect.Message         { return m }
func (m *fakeMsg) Interface() protoreflect.ProtoMessage       { return m }
func (m *fakeMsg) Descriptor() protoreflect.MessageDescriptor { return m.desc }
func (m *fakeMsg) IsValid() bool                              { return m != nil }
func (m *fakeMsg) Range(f func(protoreflect.FieldDescriptor, protoreflect.Value) bool) {
	if m.desc == nil {
		return
	}
	for i, fd := range m.desc.fields.list {
		if i < fakeMaxFields && m.fset[i] {
			if !f(fd, m.Get(fd)) {
				return
			}
		}
	}
}

type fakeMsgType struct {
	protoreflect.MessageType
	desc *fakeMsgDesc
}

func (t *fakeMsgType) New() protoreflect.Message                  { return &fakeMsg{desc: t.desc} }
func (t *fakeMsgType) Descriptor() protoreflect.MessageDescriptor { return t.desc }

// fakeResolver resolves every message name to a fake type (or fails as configured).
type fakeResolver struct {
	mode  int // 0 = found, 1 = NotFound, 2 = other error
	seen  []string
	known map[string]*fakeMsgDesc // descriptors of the service's own messages (so that message fields resolve)
}

func resolverFor(svc *fakeService) *fakeResolver {
	r := &fakeResolver{known: map[string]*fakeMsgDesc{}}
	for _, m := range svc.methods.list {
		r.known[m.in.name] = m.in
		r.known[m.out.name] = m.out
	}
	return r
}

var errFakeResolver = errors.New("fake resolver failure")

func (r *fakeResolver) FindMessageByName(name protoreflect.FullName) (protoreflect.MessageType, error) {
	r.seen = append(r.seen, string(name))
	switch r.mode {
	case 1:
		return nil, protoregistry.NotFound
	case 2:
		return nil, errFakeResolver
	}
	if d, ok := r.known[string(name)]; ok {
		return &fakeMsgType{desc: d}, nil
	}
	return &fakeMsgType{desc: newFakeMsgDesc(string(name))}, nil
}

// The other three lookups answer by the same mode and record which method was asked with what.
func (r *fakeResolver) FindMessageByURL(url string) (protoreflect.MessageType, error) {
	r.seen = append(r.seen, "url:"+url)
	switch r.mode {
	case 1:
		return nil, protoregistry.NotFound
	case 2:
		return nil, errFakeResolver
	}
	return &fakeMsgType{desc: newFakeMsgDesc("by-url:" + url)}, nil
}

type fakeExtType struct {
	protoreflect.ExtensionType
	how string
}

func (r *fakeResolver) FindExtensionByName(name protoreflect.FullName) (protoreflect.ExtensionType, error) {
	r.seen = append(r.seen, "ext:"+string(name))
	switch r.mode {
	case 1:
		return nil, protoregistry.NotFound
	case 2:
		return nil, errFakeResolver
	}
	return &fakeExtType{how: "by-name:" + string(name)}, nil
}
func (r *fakeResolver) FindExtensionByNumber(msg protoreflect.FullName, num protoreflect.FieldNumber) (protoreflect.ExtensionType, error) {
	r.seen = append(r.seen, "extnum:"+string(msg))
	switch r.mode {
	case 1:
		return nil, protoregistry.NotFound
	case 2:
		return nil, errFakeResolver
	}
	return &fakeExtType{how: "by-number:" + string(msg)}, nil
}

// ---- toy codecs ----------------------------------------------------------------

// "proto": binary, identity encoding of the abstract bytes; every byte string (incl. empty) decodes.
// "json":  text, '{' + (b xor 0x20 for each byte) + '}'; anything else is undecodable.
// An abstract byte 0xFF makes Marshal fail (models an unmarshallable message) when failMarshal is set.

var errToyDecode = errors.New("toy codec: undecodable payload")
var errToyEncode = errors.New("toy codec: cannot marshal")

type toyCodec struct {
	name        string
	text        bool
	failMarshal bool
	log         *[]string
	repeat      int  // text form writes every byte this many times (a codec whose re-encoded form is much larger)
	fields      bool // messages are carried as their string fields (REST binding harnesses) instead of abstract bytes
}

func (c *toyCodec) rep() int {
	if c.repeat < 1 {
		return 1
	}
	return c.repeat
}

func (c *toyCodec) Name() string   { return c.name }
func (c *toyCodec) IsBinary() bool { return !c.text }

func (c *toyCodec) MarshalAppend(base []byte, msg proto.Message) ([]byte, error) {
	fm, ok := msg.(*fakeMsg)
	if !ok {
		return toyMarshalForeign(c, base, msg)
	}
	if c.failMarshal {
		for _, b := range fm.data {
			if b == 0xFF {
				return nil, errToyEncode
			}
		}
	}
	if c.fields {
		return toyAppendFields(c.text, base, fm), nil
	}
	if !c.text {
		return append(base, fm.data...), nil
	}
	base = append(base, '{')
	for _, b := range fm.data {
		for i := 0; i < c.rep(); i++ {
			base = append(base, b^0x20)
		}
	}
	return append(base, '}'), nil
}

func (c *toyCodec) MarshalAppendStable(base []byte, msg proto.Message) ([]byte, error) {
	return c.MarshalAppend(base, msg)
}

func (c *toyCodec) Unmarshal(data []byte, msg proto.Message) error {
	fm, ok := msg.(*fakeMsg)
	if !ok {
		return errToyDecode
	}
	fm.set = true
	fm.fvals, fm.fset = [fakeMaxFields]string{}, [fakeMaxFields]bool{}
	fm.data = nil
	if c.fields {
		if ok, isFields := toyParseFields(c.text, data, fm); !ok || !isFields {
			return errToyDecode
		}
		return nil
	}
	if !c.text {
		fm.data = append([]byte(nil), data...)
		return nil
	}
	if len(data) < 2 || data[0] != '{' || data[len(data)-1] != '}' {
		return errToyDecode
	}
	inner := data[1 : len(data)-1]
	r := c.rep()
	if len(inner)%r != 0 {
		return errToyDecode
	}
	fm.data = make([]byte, 0, len(inner)/r)
	for i := 0; i < len(inner); i += r {
		for j := 1; j < r; j++ {
			if inner[i+j] != inner[i] {
				return errToyDecode
			}
		}
		fm.data = append(fm.data, inner[i]^0x20)
	}
	return nil
}

// toyMarshalForeign renders non-fake messages (e.g. google.rpc.Status for REST error bodies) as an opaque marker.
func toyMarshalForeign(c *toyCodec, base []byte, msg proto.Message) ([]byte, error) {
	return append(base, '{', '!', '}'), nil
}

// toyCodecUnstable is the same codec without a stable form (no StableCodec methods).
type toyCodecUnstable struct {
	inner *toyCodec
}

func (c toyCodecUnstable) Name() string { return c.inner.name }
func (c toyCodecUnstable) MarshalAppend(base []byte, msg proto.Message) ([]byte, error) {
	return c.inner.MarshalAppend(base, msg)
}
func (c toyCodecUnstable) Unmarshal(data []byte, msg proto.Message) error {
	return c.inner.Unmarshal(data, msg)
}

// refJSONRepeat mirrors fakeConfig.jsonRepeat for the reference codec (set by newPipe for every run).
var refJSONRepeat = 1

// refToyEncode / refToyDecode: reference versions used by oracles.
func refToyEncode(text bool, abstract []byte) []byte {
	if !text {
		return append([]byte(nil), abstract...)
	}
	out := []byte{'{'}
	for _, b := range abstract {
		for i := 0; i < refJSONRepeat; i++ {
			out = append(out, b^0x20)
		}
	}
	return append(out, '}')
}

func refToyDecode(text bool, wire []byte) ([]byte, bool) {
	if !text {
		return append([]byte(nil), wire...), true
	}
	if len(wire) < 2 || wire[0] != '{' || wire[len(wire)-1] != '}' {
		return nil, false
	}
	inner := wire[1 : len(wire)-1]
	if len(inner)%refJSONRepeat != 0 {
		return nil, false
	}
	out := make([]byte, 0, len(inner))
	for i := 0; i < len(inner); i += refJSONRepeat {
		for j := 1; j < refJSONRepeat; j++ {
			if inner[i+j] != inner[i] {
				return nil, false
			}
		}
		out = append(out, inner[i]^0x20)
	}
	return out, true
}

// ---- toy compressor ---------------------------------------------------------------

// compressed form: 0xC5 magic, then each byte xor 0x5A. Anything not starting with the magic is corrupt.
const toyMagic = 0xC5

var errToyCorrupt = errors.New("toy compressor: corrupt payload")

type toyCompressor struct {
	dst     io.Writer
	started bool
	isReset bool
	uses    *int
}

func (c *toyCompressor) Reset(w io.Writer) {
	c.dst = w
	c.started = false
	c.isReset = true
}

func (c *toyCompressor) Write(p []byte) (int, error) {
	if !c.isReset {
		return 0, errors.New("toy compressor used without Reset")
	}
	if !c.started {
		c.started = true
		if _, err := c.dst.Write([]byte{toyMagic}); err != nil {
			return 0, err
		}
	}
	out := make([]byte, len(p))
	for i, b := range p {
		out[i] = b ^ 0x5A
	}
	if _, err := c.dst.Write(out); err != nil {
		return 0, err
	}
	return len(p), nil
}

func (c *toyCompressor) Close() error {
	if !c.started && c.isReset {
		c.started = true
		if _, err := c.dst.Write([]byte{toyMagic}); err != nil {
			return err
		}
	}
	c.isReset = false
	return nil
}

type toyDecompressor struct {
	src     io.Reader
	started bool
	isReset bool
	expand  int // >1: each byte is emitted expand times (decompression bomb model)
	pend    []byte
	count   *int // total bytes produced (shared counter), may be nil
	everOK  bool
}

// Like compress/gzip: Reset reads and validates the header at once, and a reader whose Reset never
// succeeded must not be closed (gzip.Reader.Close then dereferences a nil decompressor).
func (d *toyDecompressor) Reset(r io.Reader) error {
	d.src = r
	d.started = false
	d.isReset = false
	d.pend = nil
	var m [1]byte
	n, err := r.Read(m[:])
	if n == 0 {
		if err == nil || err == io.EOF {
			err = errToyCorrupt
		}
		return err
	}
	if m[0] != toyMagic {
		return errToyCorrupt
	}
	d.started = true
	d.isReset = true
	d.everOK = true
	return nil
}

func (d *toyDecompressor) Read(p []byte) (int, error) {
	if !d.isReset {
		return 0, errors.New("toy decompressor used without Reset")
	}
	if len(p) == 0 {
		return 0, nil
	}
	if len(d.pend) > 0 {
		n := copy(p, d.pend)
		d.pend = d.pend[n:]
		return n, nil
	}
	if !d.started {
		var m [1]byte
		n, err := d.src.Read(m[:])
		if n == 0 {
			if err == nil {
				err = io.ErrUnexpectedEOF
			}
			if err == io.EOF {
				return 0, errToyCorrupt
			}
			return 0, err
		}
		if m[0] != toyMagic {
			return 0, errToyCorrupt
		}
		d.started = true
	}
	var one [1]byte
	n, err := d.src.Read(one[:])
	if n == 0 {
		if err == nil {
			return 0, io.ErrNoProgress
		}
		return 0, err
	}
	k := d.expand
	if k < 1 {
		k = 1
	}
	out := make([]byte, k)
	for i := range out {
		out[i] = one[0] ^ 0x5A
	}
	c := copy(p, out)
	d.pend = out[c:]
	if d.count != nil {
		*d.count += k
	}
	return c, nil
}

func (d *toyDecompressor) Close() error {
	if !d.everOK {
		panic("toy decompressor: Close before any successful Reset (compress/gzip would dereference nil here)")
	}
	d.isReset = false
	return nil
}

func refToyCompress(b []byte) []byte {
	out := []byte{toyMagic}
	for _, x := range b {
		out = append(out, x^0x5A)
	}
	return out
}

func refToyDecompress(b []byte) ([]byte, bool) {
	if len(b) == 0 || b[0] != toyMagic {
		return nil, false
	}
	out := make([]byte, 0, len(b)-1)
	for _, x := range b[1:] {
		out = append(out, x^0x5A)
	}
	return out, true
}

var _ connect.Compressor = (*toyCompressor)(nil)
var _ connect.Decompressor = (*toyDecompressor)(nil)

// ---- transcoder construction --------------------------------------------------------

type fakeConfig struct {
	protocols   []Protocol
	codecs      []string // service codecs in preference order
	compressors []string // service compressions
	maxMsg      uint32
	maxGetURL   uint32
	unstable    bool // json/proto codecs without StableCodec
	expand      int
	unknown     bool
	failMarshal bool
	decompCount *int
	jsonRepeat  int
	fieldsMode  bool
}

func toyCodecOption(name string, text bool, cfg *fakeConfig) TranscoderOption {
	return transcoderOptionFunc(func(opts *transcoderOptions) {
		opts.codecs[name] = func(TypeResolver) Codec {
			c := &toyCodec{name: name, text: text, failMarshal: cfg.failMarshal, fields: cfg.fieldsMode}
			if text {
				c.repeat = cfg.jsonRepeat
			}
			if cfg.unstable {
				return toyCodecUnstable{inner: c}
			}
			return c
		}
	})
}

func toyCompressionOption(cfg *fakeConfig) TranscoderOption {
	return transcoderOptionFunc(func(opts *transcoderOptions) {
		opts.compressors[CompressionGzip] = newCompressionPool(CompressionGzip,
			func() connect.Compressor { return &toyCompressor{} },
			func() connect.Decompressor { return &toyDecompressor{expand: cfg.expand, count: cfg.decompCount} })
	})
}

// newFakeTranscoder builds a real Transcoder through NewTranscoder for one fake service.
func newFakeTranscoder(svc *fakeService, handler http.Handler, cfg *fakeConfig, rules []*annotations.HttpRule, unknown http.Handler) (*Transcoder, error) {
	svcOpts := []ServiceOption{
		WithTypeResolver(resolverFor(svc)),
		WithTargetProtocols(cfg.protocols...),
		WithTargetCodecs(cfg.codecs...),
		WithTargetCompression(cfg.compressors...),
	}
	if cfg.maxMsg != 0 {
		svcOpts = append(svcOpts, WithMaxMessageBufferBytes(cfg.maxMsg))
	}
	if cfg.maxGetURL != 0 {
		svcOpts = append(svcOpts, WithMaxGetURLBytes(cfg.maxGetURL))
	}
	service := &Service{schema: svc, handler: handler, opts: svcOpts}
	opts := []TranscoderOption{
		toyCodecOption(CodecProto, false, cfg),
		toyCodecOption(CodecJSON, true, cfg),
		toyCompressionOption(cfg),
	}
	if len(rules) > 0 {
		opts = append(opts, WithRules(rules...))
	}
	if unknown != nil {
		opts = append(opts, WithUnknownHandler(unknown))
	}
	return NewTranscoder([]*Service{service}, opts...)
}

// verifModel for the one function of the package that is pure protobuf reflection:
// fake method descriptors carry no google.api.http annotation.
func verifModel_connectrpc_com_vanguard_getHTTPRuleExtension(desc protoreflect.MethodDescriptor) (*annotations.HttpRule, bool) {
	return nil, false
}

// Reflection-driven protobuf libraries have no encodable core: reaching them ends the path as a
// recorded cut (never a pass, never a violation).
func verifModel_google_golang_org_protobuf_encoding_protojson_UnmarshalOptions_Unmarshal(o protojson.UnmarshalOptions, b []byte, m proto.Message) error {
	if bv, ok := protojsonBV(m); ok {
		return bvJSONUnmarshal(b, bv)
	}
	if st, ok := m.(*status.Status); ok {
		return statusJSONUnmarshal(b, st)
	}
	verifOutside("protojson.Unmarshal (protobuf reflection) is outside the encoding")
	return nil
}
func verifModel_google_golang_org_protobuf_encoding_protojson_MarshalOptions_MarshalAppend(o protojson.MarshalOptions, b []byte, m proto.Message) ([]byte, error) {
	if bv, ok := protojsonBV(m); ok {
		return bvJSONMarshal(b, bv), nil
	}
	verifOutside("protojson.Marshal (protobuf reflection) is outside the encoding")
	return nil, nil
}
func verifModel_google_golang_org_protobuf_encoding_protojson_MarshalOptions_Marshal(o protojson.MarshalOptions, m proto.Message) ([]byte, error) {
	verifOutside("protojson.Marshal (protobuf reflection) is outside the encoding")
	return nil, nil
}
func verifModel_google_golang_org_protobuf_proto_Marshal(m proto.Message) ([]byte, error) {
	if st, ok := m.(*status.Status); ok {
		return statusMarshal(st), nil
	}
	verifOutside("proto.Marshal (protobuf reflection) is outside the encoding")
	return nil, nil
}
func verifModel_google_golang_org_protobuf_proto_Unmarshal(b []byte, m proto.Message) error {
	if st, ok := m.(*status.Status); ok {
		return statusUnmarshal(b, st)
	}
	verifOutside("proto.Unmarshal (protobuf reflection) is outside the encoding")
	return nil
}

// floating point (REST X-Server-Timeout) is outside the encoding: a recorded cut when the value is symbolic

// Field section of the toy encodings: binary 0xF1 (idx len value)*, text "{" 0x01 (idx len value)* "}".
const toyFieldMarkBin, toyFieldMarkText = 0xF1, 0x01

func toyAppendFields(text bool, base []byte, fm *fakeMsg) []byte {
	if text {
		base = append(base, '{', toyFieldMarkText)
	} else {
		base = append(base, toyFieldMarkBin)
	}
	for i := 0; i < fakeMaxFields; i++ {
		if fm.fset[i] {
			base = append(base, byte(i), byte(len(fm.fvals[i])))
			base = append(base, fm.fvals[i]...)
		}
	}
	if text {
		base = append(base, '}')
	}
	return base
}

func toyParseFields(text bool, data []byte, fm *fakeMsg) (ok bool, isFields bool) {
	body := data
	if text {
		if len(data) < 3 || data[0] != '{' || data[1] != toyFieldMarkText || data[len(data)-1] != '}' {
			return false, false
		}
		body = data[2 : len(data)-1]
	} else {
		if len(data) < 1 || data[0] != toyFieldMarkBin {
			return false, false
		}
		body = data[1:]
	}
	for len(body) > 0 {
		if len(body) < 2 || int(body[0]) >= fakeMaxFields || len(body)-2 < int(body[1]) {
			return false, true
		}
		i, n := int(body[0]), int(body[1])
		fm.fvals[i] = string(body[2 : 2+n])
		fm.fset[i] = true
		body = body[2+n:]
	}
	return true, true
}

// refToyFields decodes the field section (reference for oracles).
func refToyFields(text bool, data []byte) (vals [fakeMaxFields]string, set [fakeMaxFields]bool, ok bool) {
	var fm fakeMsg
	ok2, isF := toyParseFields(text, data, &fm)
	return fm.fvals, fm.fset, ok2 && isF
}
