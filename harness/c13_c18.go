package vanguard

import (
	"context"
	"io"
	"net/http"
	"net/url"
	"strings"

	"google.golang.org/genproto/googleapis/api/annotations"
)

// passBackend records the request object it was given and answers with a fixed response.
type passBackend struct {
	calls   int
	req     *http.Request
	writer  http.ResponseWriter
	body    []byte
	readErr error
	hdr     http.Header
}

func (b *passBackend) ServeHTTP(w http.ResponseWriter, r *http.Request) {
	b.calls++
	b.req = r
	b.writer = w
	b.hdr = r.Header.Clone()
	b.body, b.readErr = readAllSized(r.Body, 16, 100)
}

func headersEqual(a, b http.Header) bool {
	if len(a) != len(b) {
		return false
	}
	eq := true
	for k, va := range a {
		vb, ok := b[k]
		if !ok || len(va) != len(vb) {
			return false
		}
		for i := range va {
			eq = eq && va[i] == vb[i]
		}
	}
	return eq
}

// hC13PassThrough: when no conversion applies, or nothing matches and an unknown-endpoint handler is
// configured, the downstream handler gets the client's request unchanged and the original writer.
func hC13PassThrough() {
	cfg := &pipeCfg{maxMsg: 4096}
	cfg.client = verifChoose("client", 6)
	cfg.svcProtos = []Protocol{clientProtocolOf(cfg.client)}
	unaryClient := cfg.client == cfConnectUnary || cfg.client == cfConnectGet || cfg.client == cfREST
	if !unaryClient {
		cfg.kind = fkBidi
	}
	cfg.clientCodec = CodecProto
	if cfg.client == cfREST || verifChoose("codec", 2) == 1 {
		cfg.clientCodec = CodecJSON
	}
	cfg.svcCodecs = []string{cfg.clientCodec}
	compMode := verifChoose("comp", 3) // none, gzip, explicit "identity"
	cfg.clientComp = compMode == 1
	cfg.svcComp = cfg.clientComp || verifChoose("svcComp", 2) == 1
	if cfg.client == cfConnectGet {
		cfg.idem, cfg.hasIdem = 1, true
	}
	// 0: matched (pass-through); 1: path matches nothing; 2: the path names a configured method, but the service
	// only targets REST and the method has no HTTP rule, so it cannot be served ("late" not-found, decided after
	// the request's headers have been picked apart)
	unmatchedMode := verifChoose("unmatched", 3)
	if unmatchedMode == 2 {
		if cfg.client == cfREST {
			return
		}
		cfg.svcProtos = []Protocol{ProtocolREST}
	}
	unmatched := unmatchedMode != 0
	pb := &passBackend{}
	unk := &passBackend{}
	svc := newFakeService(pipeSvc)
	svc.addMethod(pipeMethod, cfg.kind, cfg.idem, cfg.hasIdem)
	fc := &fakeConfig{protocols: cfg.svcProtos, codecs: cfg.svcCodecs, maxMsg: cfg.maxMsg}
	if cfg.svcComp {
		fc.compressors = []string{CompressionGzip}
	}
	rules := pipeRules()
	if unmatchedMode == 2 {
		// (a REST-only service must have at least one method with a rule to be accepted at all)
		svc.addMethod("Other", fkUnary, 0, false)
		rules = []*annotations.HttpRule{{Selector: pipeSvc + ".Other", Pattern: &annotations.HttpRule_Get{Get: "/other"}}}
	}
	tr, err := newFakeTranscoder(svc, pb, fc, rules, unk)
	if err != nil {
		verifObsStr("config-error", err.Error())
	}
	verifAssert(err == nil, "configuration accepted")
	if err != nil {
		return
	}
	body := &fakeBody{}
	req := buildClientRequest(cfg, []wireMsg{{abstract: []byte{'a'}}}, body)
	if compMode == 2 {
		switch cfg.client {
		case cfGRPC, cfGRPCWeb:
			req.Header.Set("Grpc-Encoding", "identity")
		case cfConnectStream:
			req.Header.Set("Connect-Content-Encoding", "identity")
		case cfConnectGet:
			req.URL.RawQuery += "&compression=identity"
		default:
			req.Header.Set("Content-Encoding", "identity")
		}
	}
	// arbitrary body bytes (not necessarily valid in the protocol), arbitrary declared length, extra headers
	maxBody, hvLen, pathLen := 3, 2, 1
	if verifTier() == 1 {
		maxBody, hvLen, pathLen = 5, 3, 2
	}
	n := verifChoose("bodyLen", maxBody+1)
	body.data = nondetBytes("body", n)
	req.ContentLength = verifNondetInt64("contentLength")
	verifAssume(req.ContentLength >= -1)
	hv := string(nondetBytes("hv", hvLen))
	req.Header["X-Custom"] = []string{hv, "second"}
	req.Header.Set("Accept-Encoding", "br")
	if req.ContentLength >= 0 {
		req.Header.Set("Content-Length", "7")
	}
	if unmatchedMode == 1 {
		if cfg.client == cfGRPC && verifChoose("overHTTP1", 2) == 1 {
			// a gRPC-looking request over HTTP/1.1 to a path nobody configured: still the unknown handler's business
			req.Proto, req.ProtoMajor, req.ProtoMinor = "HTTP/1.1", 1, 1
		}
		req.URL.Path = "/nope/" + string(nondetBytes("p", pathLen))
		if verifTier() == 1 {
			req.URL.RawQuery = "q=" + string(nondetBytes("query", 1))
		}
		// requests that fit no RPC protocol at all (what a web server mounted as the unknown-endpoint handler gets
		// every day): still none of the transcoder's business on a path nobody configured
		foreign := 0
		if verifTier() == 0 || n == 0 { // (thorough: crossed with empty bodies only; the body plays no part in classification)
			foreign = verifChoose("foreign", 5)
		}
		switch foreign {
		case 1:
			req.Header["Content-Type"] = []string{"text/html", "text/plain"} // two Content-Type values
		case 2:
			req.Header.Del("Content-Type")
			req.Header.Set("Connect-Protocol-Version", "1") // (on a POST)
		case 3:
			req.URL.RawQuery = "connect=v1" // (on a POST / with a content-type that is not a Connect GET)
		case 4:
			req.Header.Set("Content-Type", "multipart/form-data; boundary=x")
		}
	}
	wantHdr := req.Header.Clone()
	wantURL := *req.URL
	wantMethod, wantProto, wantMajor, wantCL := req.Method, req.Proto, req.ProtoMajor, req.ContentLength
	wantBody := append([]byte(nil), body.data...)
	sink := newFakeSink()
	tr.ServeHTTP(sink, req)

	got := pb
	if unmatched {
		verifReach("unknown-endpoint")
		verifAssert(pb.calls == 0 && unk.calls == 1, "C13: unmatched path goes to the unknown-endpoint handler exactly once")
		got = unk
	} else {
		verifReach("pass-through")
		verifAssert(pb.calls == 1 && unk.calls == 0, "C13: acceptable triple is passed to the service handler exactly once")
	}
	if got.calls != 1 {
		return
	}
	r := got.req
	verifObsBytes("body", got.body)
	verifObsInt("contentLength", r.ContentLength)
	verifAssert(r.Method == wantMethod, "C13: method unchanged")
	verifAssert(r.URL.Path == wantURL.Path && r.URL.RawQuery == wantURL.RawQuery && r.URL.RawPath == wantURL.RawPath, "C13: URL unchanged")
	verifAssert(r.Proto == wantProto && r.ProtoMajor == wantMajor, "C13: protocol version unchanged")
	verifAssert(headersEqual(got.hdr, wantHdr), "C13: every header unchanged")
	verifAssert(r.ContentLength == wantCL, "C13: declared content length unchanged")
	verifAssert(got.readErr == nil && bytesEq(got.body, wantBody), "C13: exact body bytes")
	_, same := got.writer.(*fakeSink)
	verifAssert(same && got.writer.(*fakeSink) == sink, "C13: handler writes to the original ResponseWriter (response untouched)")
}

// ---- C18 -----------------------------------------------------------------------------------

// hC18Dispatch: at most one dispatch; none when validation rejects; context cancelled on return.
func hC18Dispatch() {
	cfg := &pipeCfg{maxMsg: 16, kind: fkUnary, clientCodec: CodecProto, svcCodecs: []string{CodecJSON}}
	cfg.svcProtos = []Protocol{pipeProtocols[verifChoose("target", 4)]}
	// rejection classes (one per run)
	class := verifChoose("reject", 14)
	if class == 12 {
		if cfg.svcProtos[0] == ProtocolREST {
			return
		}
		cfg.kind = fkBidi // full-duplex method: requires HTTP/2 from the client whatever the target
	}
	p := newPipe(cfg)
	if !p.buildOK {
		return
	}
	unk := &passBackend{}
	withUnknown := verifChoose("unknownHandler", 2) == 1
	if withUnknown {
		p.tr.unknownHandler = unk
	}
	p.backend.script = &respScript{msgs: []wireMsg{{abstract: []byte{'r'}}}}
	cfg.client = verifChoose("client", 4) // gRPC, gRPC-Web, Connect stream (rejected for unary), Connect unary
	req := buildClientRequest(cfg, []wireMsg{{abstract: []byte{'q'}}}, p.body)
	expectReject := true
	switch class {
	case 0:
		expectReject = cfg.client == cfConnectStream // streaming protocol on a unary method
	case 1: // unclassifiable: two content-types
		req.Header["Content-Type"] = []string{"application/grpc", "application/json"}
	case 2: // unknown method
		req.URL.Path = "/pkg.Svc/" + string(nondetBytes("m", 2+verifTier()))
		verifAssume(req.URL.Path != pipePath)
		if withUnknown {
			expectReject = false
		}
	case 3: // wrong HTTP method
		req.Method = string(nondetBytes("method", 3+verifTier()))
		verifAssume(req.Method != "POST")
	case 4: // gRPC over HTTP/1
		if cfg.client != cfGRPC {
			return
		}
		req.Proto, req.ProtoMajor = "HTTP/1.1", 1
	case 5: // unsupported codec
		ct := req.Header.Get("Content-Type")
		req.Header.Set("Content-Type", ct[:len(ct)-len("proto")]+"x"+string(nondetBytes("codec", 1+verifTier())))
	case 6: // unsupported compression
		name := "z" + string(nondetBytes("comp", 1+verifTier()))
		switch cfg.client {
		case cfGRPC, cfGRPCWeb:
			req.Header.Set("Grpc-Encoding", name)
		case cfConnectStream:
			req.Header.Set("Connect-Content-Encoding", name)
		default:
			req.Header.Set("Content-Encoding", name)
		}
	case 7: // Content-Encoding on an enveloped protocol
		if cfg.client == cfConnectUnary {
			return
		}
		req.Header.Set("Content-Encoding", "gzip")
	case 8: // malformed timeout
		bad := string(nondetBytes("timeout", 2+verifTier()))
		if cfg.client == cfGRPC || cfg.client == cfGRPCWeb {
			verifAssume(refGrpcClearlyMalformed([]byte(bad)))
			req.Header.Set("Grpc-Timeout", bad)
		} else {
			verifAssume(refConnectClearlyMalformed([]byte(bad)))
			req.Header.Set("Connect-Timeout-Ms", bad)
		}
	case 9: // leading message undecodable while it is needed to build the backend request (REST target)
		target, _, _ := refNegotiate(cfg)
		if target != ProtocolREST || cfg.client == cfConnectStream {
			return
		}
		cfg2 := *cfg
		cfg2.clientCodec = CodecJSON
		req = buildClientRequest(&cfg2, nil, p.body)
		p.body.data = []byte{'x'} // not a toy-JSON document
		if clientEnveloped(cfg.client) {
			p.body.data = appendFrame(nil, 0, []byte{'x'})
		}
		cfg.clientCodec = CodecJSON
	case 10: // leading message oversized while needed (REST target)
		target, _, _ := refNegotiate(cfg)
		if target != ProtocolREST || !clientEnveloped(cfg.client) || cfg.client == cfConnectStream {
			return
		}
		p.body.data = []byte{0, 0, 0, 1, 0}
	case 13: // the Connect GET marker (?connect=v1) on a request that is not a GET and carries no Connect-Protocol-Version: unclassifiable
		if cfg.client != cfConnectUnary {
			return
		}
		req.Header.Del("Connect-Protocol-Version")
		req.URL.RawQuery = "connect=v1"
	case 12: // bidi method over HTTP/1.x (any streaming client form)
		if cfg.client == cfConnectUnary {
			return
		}
		req.Proto, req.ProtoMajor, req.ProtoMinor = "HTTP/1.1", 1, 1
	case 11: // leading message truncated while needed (REST target): envelope announces 2 bytes, 0 or 1 arrive
		target, _, _ := refNegotiate(cfg)
		if target != ProtocolREST || !clientEnveloped(cfg.client) || cfg.client == cfConnectStream {
			return
		}
		p.body.data = append([]byte{0, 0, 0, 0, 2}, nondetBytes("partial", verifChoose("arrived", 2))...)
	}
	p.req = req
	p.tr.ServeHTTP(p.sink, req)
	verifObsInt("service-calls", int64(p.backend.rec.calls))
	verifObsInt("unknown-calls", int64(unk.calls))
	verifObsInt("status", int64(p.sink.status))
	total := p.backend.rec.calls + unk.calls
	verifReach("served")
	verifAssert(total <= 1, "C18: at most one handler invocation per request")
	if expectReject {
		verifReach("rejected")
		verifAssert(total == 0, "C18: a request rejected during validation never reaches a handler")
		out := refParseClientResponse(cfg, p.sink, false)
		verifAssert(p.sink.heads == 1 && out.valid && out.code != 0, "C18: rejection is answered with an error in the client's protocol or a plain HTTP error")
	} else {
		verifReach("accepted")
		verifAssert(total == 1, "C18: an acceptable request is dispatched exactly once")
	}
	if p.backend.rec.calls == 1 {
		verifReach("context-observed")
		verifAssert(p.backend.rec.ctx != nil && p.backend.rec.ctx.Err() != nil, "C18: the request context handed to the handler is cancelled when ServeHTTP returns")
	}
	_ = url.URL{}
}

// hC18Panic: a panicking handler still leaves the context cancelled (deferred cancel).
func hC18Panic() {
	cfg := &pipeCfg{maxMsg: 16, kind: fkUnary, clientCodec: CodecProto, svcCodecs: []string{CodecJSON}, client: cfGRPC}
	cfg.svcProtos = []Protocol{pipeProtocols[verifChoose("target", 3)]}
	p := newPipe(cfg)
	if !p.buildOK {
		return
	}
	var seen context.Context
	p.tr.methods[pipePath].handler = http.HandlerFunc(func(w http.ResponseWriter, r *http.Request) {
		seen = r.Context()
		if verifChoose("write-first", 2) == 1 {
			w.WriteHeader(200)
		}
		panic("handler panic")
	})
	req := buildClientRequest(cfg, []wireMsg{{abstract: []byte{'q'}}}, p.body)
	panicked := false
	func() {
		defer func() {
			if recover() != nil {
				panicked = true
			}
		}()
		p.tr.ServeHTTP(p.sink, req)
	}()
	verifReach("handler-panicked")
	verifAssert(panicked, "handler panic propagates to the HTTP server")
	verifAssert(seen != nil && seen.Err() != nil, "C18: context cancelled even when the handler panics")
}

// hC18RestMethod: a REST request whose path matches a route (through a path variable or a literal) but whose
// HTTP method has no binding there is rejected by the transcoder itself (405 with an Allow header): neither the
// service handler nor a configured unknown-endpoint handler is invoked.
func hC18RestMethod() {
	svc := newFakeService(pipeSvc)
	svc.addMethod(pipeMethod, fkUnary, 0, false)
	backend := &passBackend{}
	unk := &passBackend{}
	fc := &fakeConfig{protocols: []Protocol{ProtocolGRPC}, codecs: []string{CodecProto}, maxMsg: 4096}
	tpl := []string{"/v1/{name}", "/v1/things", "/v1/{name}/x:go"}[verifChoose("template", 3)]
	path := []string{"/v1/abc", "/v1/things", "/v1/abc/x:go"}[verifChoose("template", 3)]
	rules := []*annotations.HttpRule{{Selector: pipeSvc + "." + pipeMethod, Pattern: &annotations.HttpRule_Get{Get: tpl}}}
	var unknown http.Handler
	if verifChoose("unknownHandler", 2) == 1 {
		unknown = unk
	}
	tr, err := newFakeTranscoder(svc, backend, fc, rules, unknown)
	verifAssert(err == nil, "rule accepted")
	if err != nil {
		return
	}
	method := []string{"POST", "DELETE", "PUT"}[verifChoose("method", 3)]
	req := &http.Request{Method: method, URL: &url.URL{Path: path}, Proto: "HTTP/1.1", ProtoMajor: 1, ProtoMinor: 1,
		Header: http.Header{"Content-Type": {"application/json"}}, Body: &fakeBody{data: []byte("{}")}, ContentLength: -1}
	sink := newFakeSink()
	tr.ServeHTTP(sink, req)
	verifObsInt("status", int64(sink.status))
	verifObsInt("service-calls", int64(backend.calls))
	verifObsInt("unknown-calls", int64(unk.calls))
	verifReach("wrong-method")
	matches, _, _ := tr.restRoutes.match(path, "GET")
	if matches == nil {
		return // the path does not belong to the template (mixed choices): not this harness's subject
	}
	verifAssert(backend.calls == 0 && unk.calls == 0, "C18: a request with a method the matching route does not have never reaches a handler")
	verifAssert(sink.status == 405 && strings.Contains(sink.headSnap.Get("Allow"), "GET"), "C18: it is answered 405 with an Allow header naming the route's methods")
}

// hC18Late: a handler that keeps the request body and the ResponseWriter it was given and uses them after it has
// returned (a leaked goroutine, a deferred cleanup that runs late). By the time ServeHTTP has returned the
// transcoder performs no further reads of the client's body and no further writes to the client's connection.
func hC18Late() {
	cfg := &pipeCfg{maxMsg: 64, kind: fkBidi, clientCodec: CodecProto}
	cfg.client = []int{cfGRPC, cfGRPCWeb, cfConnectStream}[verifChoose("client", 3)]
	cfg.svcProtos = []Protocol{pipeProtocols[verifChoose("target", 3)]}
	cfg.svcCodecs = []string{[]string{CodecProto, CodecJSON}[verifChoose("otherCodec", 2)]}
	if pipeIsPassThrough(cfg) {
		return
	}
	p := newPipe(cfg)
	if !p.buildOK {
		return
	}
	target, codec, _ := refNegotiate(cfg)
	var keptBody io.Reader
	var keptWriter http.ResponseWriter
	readFirst := verifChoose("handlerReadsFirstMessage", 2) == 1
	p.tr.methods[pipePath].handler = http.HandlerFunc(func(w http.ResponseWriter, r *http.Request) {
		keptBody, keptWriter = r.Body, w
		if readFirst {
			buf := make([]byte, 6)
			r.Body.Read(buf)
		}
		w.Header().Set("Content-Type", p.backendContentType())
		w.Write(appendFrame(nil, 0, encodeMsg(codec, wireMsg{abstract: []byte{'r'}})))
		switch target {
		case ProtocolGRPC:
			w.Header().Set(http.TrailerPrefix+"Grpc-Status", "0")
		case ProtocolGRPCWeb:
			w.Write(appendFrame(nil, 0x80, []byte("grpc-status: 0\r\n")))
		default:
			w.Write(appendFrame(nil, 2, []byte("{}")))
		}
	})
	p.serve([]wireMsg{{abstract: []byte{'a'}}, {abstract: []byte{'b'}}})
	verifReach("handler-returned")
	if keptBody == nil {
		return
	}
	readsBefore, posBefore, wroteBefore := p.body.reads, p.body.pos, len(p.sink.body)
	buf := make([]byte, 16)
	n, _ := keptBody.Read(buf)
	keptWriter.Write(appendFrame(nil, 0, encodeMsg(codec, wireMsg{abstract: []byte{'z'}})))
	if f, ok := keptWriter.(http.Flusher); ok {
		f.Flush()
	}
	verifObsInt("late-read-bytes", int64(n))
	verifAssert(p.body.reads == readsBefore && p.body.pos == posBefore, "C18: no further reads of the client's body after ServeHTTP has returned")
	verifAssert(n == 0, "C18: a read after ServeHTTP has returned hands out nothing")
	verifAssert(len(p.sink.body) == wroteBefore, "C18: no further writes to the client after ServeHTTP has returned")
}
