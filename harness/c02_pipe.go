package vanguard

import (
	"strings"
)

func protocolFromContentType(ct string, unaryKind bool) (Protocol, string, bool) {
	switch {
	case strings.HasPrefix(ct, "application/grpc-web+"):
		return ProtocolGRPCWeb, ct[len("application/grpc-web+"):], true
	case strings.HasPrefix(ct, "application/grpc+"):
		return ProtocolGRPC, ct[len("application/grpc+"):], true
	case strings.HasPrefix(ct, "application/connect+"):
		return ProtocolConnect, ct[len("application/connect+"):], !unaryKind
	case strings.HasPrefix(ct, "application/"):
		return 0, ct[len("application/"):], true // Connect unary or REST: told apart by path
	}
	return 0, "", false
}

// hC02Pipe: what the backend is handed is a valid request of the negotiated protocol/codec/compression.
func hC02Pipe() {
	refStrictCompressed = true // every peer here is well-formed
	defer func() { refStrictCompressed = false }() // (the native twin runs many cases in one process)
	cfg, ok := pickPipeCfg()
	if !ok {
		return
	}
	p := newPipe(cfg)
	if !p.buildOK {
		return
	}
	target, codec, comp := refNegotiate(cfg)
	unaryKind := cfg.kind == fkUnary
	reqMsgs := pickMsgs("req", clientEnveloped(cfg.client), cfg.clientComp, unaryKind)
	p.backend.script = &respScript{}
	// the client also advertises what it accepts and sets a deadline, in its own protocol's headers
	p.req = buildClientRequest(cfg, reqMsgs, p.body)
	withExtras := verifChoose("extras", 2) == 1
	if !withExtras {
		// what the backend receives must be a valid request however it reads it: in large reads, or (here) in
		// reads shorter than an envelope
		p.backend.bufSize = 3
	}
	if withExtras {
		switch cfg.client {
		case cfGRPC, cfGRPCWeb:
			p.req.Header.Set("Grpc-Accept-Encoding", "gzip")
			p.req.Header.Set("Grpc-Timeout", "5S")
		case cfConnectStream:
			p.req.Header.Set("Connect-Accept-Encoding", "gzip")
			p.req.Header.Set("Connect-Timeout-Ms", "5000")
		case cfConnectUnary, cfConnectGet:
			p.req.Header.Set("Accept-Encoding", "gzip")
			p.req.Header.Set("Connect-Timeout-Ms", "5000")
		case cfREST:
			p.req.Header.Set("Accept-Encoding", "gzip")
		}
		p.req.Header.Set("X-App", "v")
	}
	p.tr.ServeHTTP(p.sink, p.req)
	rec := &p.backend.rec
	verifObsInt("calls", int64(rec.calls))
	verifObsBytes("backend-body", rec.body)
	verifObsStr("backend-ct", rec.header.Get("Content-Type"))
	verifAssert(rec.calls <= 1, "C02: at most one dispatch")
	if rec.calls == 0 {
		verifReach("rejected")
		return
	}
	verifReach("dispatched")
	if pipeIsPassThrough(cfg) {
		verifReach("pass-through")
	}
	h := rec.header
	if target == ProtocolConnect && unaryKind && rec.method == "GET" {
		verifOutside("Connect GET towards the backend is decided in C19")
	}
	ct := h.Get("Content-Type")
	gotProto, gotCodec, okCT := protocolFromContentType(ct, unaryKind)
	verifAssert(okCT && len(h["Content-Type"]) == 1, "C02: backend content-type names one known protocol form")
	if !okCT {
		return
	}
	if gotProto == 0 {
		if rec.path == pipeRESTPath {
			gotProto = ProtocolREST
		} else {
			gotProto = ProtocolConnect
		}
	}
	verifAssert(hasProto(cfg.svcProtos, gotProto), "C02: backend protocol is one the service accepts")
	verifAssert(gotProto == target, "C02: client's protocol kept when acceptable, else first configured of Connect,gRPC,gRPC-Web,REST")
	if gotProto == ProtocolREST {
		verifAssert(gotCodec == CodecJSON, "C02: REST backend gets JSON")
	} else {
		verifAssert(hasString(cfg.svcCodecs, gotCodec), "C02: backend codec is one the service accepts")
	}
	verifAssert(gotCodec == codec, "C02: client's codec kept when acceptable, else the service's preferred codec")
	// request line
	if gotProto == ProtocolConnect && unaryKind && rec.method == "GET" {
		verifOutside("Connect GET towards the backend is decided in C19")
	}
	verifAssert(rec.method == "POST", "C02: backend request method")
	if gotProto == ProtocolREST {
		verifAssert(rec.path == pipeRESTPath && rec.rawQuery == "", "C02: REST request line follows the rule")
	} else {
		verifAssert(rec.path == pipePath && rec.rawQuery == "", "C02: RPC request path is /service/method with no query")
	}
	if gotProto == ProtocolGRPC {
		verifAssert(rec.protoMajor == 2, "C02: gRPC backend sees HTTP/2")
		verifAssert(h.Get("Te") == "trailers", "C02: gRPC backend sees te: trailers")
	}
	if gotProto == ProtocolConnect && unaryKind {
		verifAssert(h.Get("Connect-Protocol-Version") == "1", "C02: Connect unary backend sees the protocol version header")
	}
	// compression declaration: exactly in the target's own header
	own := "Grpc-Encoding"
	ownAccept := "Grpc-Accept-Encoding"
	switch {
	case gotProto == ProtocolConnect && !unaryKind:
		own, ownAccept = "Connect-Content-Encoding", "Connect-Accept-Encoding"
	case gotProto == ProtocolConnect || gotProto == ProtocolREST:
		own, ownAccept = "Content-Encoding", "Accept-Encoding"
	}
	declared := h.Get(own)
	verifAssert(declared == "" || (declared == "gzip" && cfg.svcComp), "C02: declared compression is one the service accepts")
	verifAssert((declared != "") == comp, "C02: client's compression kept when acceptable, else none")
	for _, k := range []string{"Grpc-Encoding", "Connect-Content-Encoding", "Content-Encoding", "Grpc-Accept-Encoding", "Connect-Accept-Encoding", "Accept-Encoding"} {
		if k != own && k != ownAccept {
			_, present := h[k]
			verifAssert(!present, "C02: no compression header of another protocol family left over")
		}
	}
	if gotProto == ProtocolGRPC || gotProto == ProtocolGRPCWeb {
		_, present := h["Connect-Timeout-Ms"]
		verifAssert(!present, "C02: no Connect deadline header towards a gRPC backend")
	} else {
		_, present := h["Grpc-Timeout"]
		verifAssert(!present, "C02: no gRPC deadline header towards a Connect/REST backend")
	}
	_, hasCL := h["Content-Length"]
	verifAssert(!hasCL && rec.contentLen == -1, "C02: no stale Content-Length on a transformed request")
	if withExtras {
		verifAssert(h.Get("X-App") == "v", "C02: application header untouched")
	}
	// body agrees with the declarations
	got, parsed := refParseBackendBody(gotProto, unaryKind, gotCodec, declared != "", rec.body)
	verifAssert(parsed, "C02: envelopes, flags, lengths and declared compression agree with the body bytes")
	if parsed {
		verifAssert(sameMsgs(got, reqMsgs), "C02: body carries the client's messages")
	}
}

// hC02UnaryCount: a unary method called by an enveloped client (gRPC, gRPC-Web) that sends two complete request
// messages. A backend without envelopes (Connect unary, REST) must never be handed the two messages run together
// as one request body, and the call must not be reported as a success.
func hC02UnaryCount() {
	cfg := &pipeCfg{maxMsg: 64, kind: fkUnary}
	cfg.client = verifChoose("client", 2) // gRPC, gRPC-Web
	cfg.svcProtos = []Protocol{[]Protocol{ProtocolConnect, ProtocolREST}[verifChoose("target", 2)]}
	cfg.clientCodec = []string{CodecProto, CodecJSON}[verifChoose("clientCodec", 2)]
	cfg.svcCodecs = []string{cfg.clientCodec}
	if verifChoose("reencode", 2) == 1 {
		cfg.svcCodecs = []string{map[string]string{CodecProto: CodecJSON, CodecJSON: CodecProto}[cfg.clientCodec]}
	}
	p := newPipe(cfg)
	if !p.buildOK {
		return
	}
	target, codec, comp := refNegotiate(cfg)
	p.backend.script = &respScript{msgs: []wireMsg{{abstract: []byte{'r'}}}}
	m1 := wireMsg{abstract: nondetBytes("m1", 1)}
	m2 := wireMsg{abstract: nondetBytes("m2", 1)}
	p.req = buildClientRequest(cfg, nil, p.body)
	p.body.data = appendFrame(appendFrame(nil, 0, encodeMsg(cfg.clientCodec, m1)), 0, encodeMsg(cfg.clientCodec, m2))
	p.tr.ServeHTTP(p.sink, p.req)
	out := refParseClientResponse(cfg, p.sink, p.backend.rec.calls > 0)
	verifObsInt("calls", int64(p.backend.rec.calls))
	verifObsBytes("backend-body", p.backend.rec.body)
	verifObsInt("client-code", int64(out.code))
	verifReach("two-messages-for-a-unary-method")
	if p.backend.rec.calls > 0 && p.backend.rec.readErr == nil {
		msgs, ok := refParseBackendBody(target, true, codec, comp, p.backend.rec.body)
		one := ok && len(msgs) == 1 && (bytesEq(msgs[0], m1.abstract) || bytesEq(msgs[0], m2.abstract))
		verifAssert(one || !ok, "C02: a unary backend is not handed two client messages run together as one request")
	}
	verifAssert(!(out.valid && out.code == 0), "C02: a unary call that carried two request messages is not reported as a success")
}
