package vanguard

import (
	"context"
	"errors"
	"io"
	"net/http"
)

// ---- context model (context.WithCancel uses goroutines and channels) ---------------

type verifCtx struct {
	context.Context
	cancelled bool
}

func (c *verifCtx) Err() error {
	if c.cancelled {
		return context.Canceled
	}
	return c.Context.Err()
}
func (c *verifCtx) Done() <-chan struct{} { return nil }

var verifLastCtx *verifCtx

func verifModel_context_WithCancel(parent context.Context) (context.Context, context.CancelFunc) {
	c := &verifCtx{Context: parent}
	verifLastCtx = c
	return c, func() { c.cancelled = true }
}

// ---- request body source --------------------------------------------------------------

var errFakeTransport = errors.New("fake transport error")

// fakeBody delivers data in chunks; after the data it returns io.EOF (or a transport error).
type fakeBody struct {
	data    []byte
	pos     int
	chunk   int  // max bytes per Read (0 = unlimited)
	failEnd bool // transport error instead of EOF
	closed  bool
	reads   int
	// eofWithData: deliver the final bytes together with io.EOF
	eofWithData bool
	// onRead, when set, runs at the start of every Read: what other goroutines do while this Read is "blocked"
	onRead func()
	// gated: the client has only sent the first avail bytes so far and sends more only after it has received
	// the peer's reply. A Read (of any size, also zero: an HTTP/2 request body blocks on every Read until data
	// or the end of the stream arrives) that finds nothing available would wait for that - it is counted.
	gated   bool
	avail   int
	blocked int
	// emptyReadAt > 0: the Read with this ordinal returns (0, nil) once - which io.Reader permits (and
	// discourages); it means "nothing happened", not the end of anything
	emptyReadAt int
}

func (b *fakeBody) Read(p []byte) (int, error) {
	b.reads++
	if b.onRead != nil {
		b.onRead()
	}
	if b.emptyReadAt > 0 && b.reads == b.emptyReadAt && len(p) > 0 {
		return 0, nil
	}
	if b.gated && b.pos >= b.avail {
		b.blocked++
	}
	if b.pos >= len(b.data) {
		if b.failEnd {
			return 0, errFakeTransport
		}
		return 0, io.EOF
	}
	n := len(b.data) - b.pos
	if b.chunk > 0 && n > b.chunk {
		n = b.chunk
	}
	if b.gated && b.pos < b.avail && n > b.avail-b.pos {
		n = b.avail - b.pos
	}
	if n > len(p) {
		n = len(p)
	}
	copy(p, b.data[b.pos:b.pos+n])
	b.pos += n
	if b.eofWithData && b.pos >= len(b.data) && !b.failEnd {
		return n, io.EOF
	}
	return n, nil
}

func (b *fakeBody) Close() error {
	b.closed = true
	return nil
}

// ---- response sink --------------------------------------------------------------------

type fakeSink struct {
	hdr         http.Header
	heads       int
	status      int
	headSnap    http.Header // header snapshot at first WriteHeader
	body        []byte
	flushes     []int // body length at each Flush
	writeErrAt  int   // fail writes once body reached this many bytes (-1 = never)
	writesAfter int
	// onWrite, when set, runs at the start of every Write: what other goroutines do while this Write is
	// "blocked" in the transport (flow control, a slow client)
	onWrite func()
}

func newFakeSink() *fakeSink {
	return &fakeSink{hdr: http.Header{}, writeErrAt: -1}
}

func (s *fakeSink) Header() http.Header { return s.hdr }

func (s *fakeSink) WriteHeader(code int) {
	s.heads++
	if s.heads == 1 {
		s.status = code
		s.headSnap = s.hdr.Clone()
	}
}

func (s *fakeSink) Write(p []byte) (int, error) {
	if s.onWrite != nil {
		s.onWrite()
	}
	if s.heads == 0 {
		s.WriteHeader(http.StatusOK)
	}
	if s.writeErrAt >= 0 && len(s.body) >= s.writeErrAt {
		return 0, errFakeTransport
	}
	s.body = append(s.body, p...)
	return len(p), nil
}

func (s *fakeSink) Flush() {
	if s.heads == 0 {
		s.WriteHeader(http.StatusOK) // like net/http: flushing sends the head, with 200 if none was written
	}
	s.flushes = append(s.flushes, len(s.body))
}

// trailers: what net/http would send as HTTP trailers = keys with the TrailerPrefix set after the head,
// plus keys announced in "Trailer" at head time and set later.
func (s *fakeSink) trailers() http.Header {
	out := http.Header{}
	announced := map[string]bool{}
	if s.headSnap != nil {
		for _, v := range s.headSnap["Trailer"] {
			for _, k := range parseMultiHeader([]string{v}) {
				announced[http.CanonicalHeaderKey(k)] = true
			}
		}
	}
	for k, vs := range s.hdr {
		if len(k) > len(http.TrailerPrefix) && k[:len(http.TrailerPrefix)] == http.TrailerPrefix {
			out[k[len(http.TrailerPrefix):]] = vs
			continue
		}
		if announced[k] {
			if s.headSnap != nil {
				if _, atHead := s.headSnap[k]; atHead {
					continue
				}
			}
			out[k] = vs
		}
	}
	return out
}

// sinkNoFlush is a ResponseWriter without Flush (to exercise the missing-Flusher path).
type sinkNoFlush struct{ s *fakeSink }

func (s sinkNoFlush) Header() http.Header         { return s.s.Header() }
func (s sinkNoFlush) WriteHeader(code int)        { s.s.WriteHeader(code) }
func (s sinkNoFlush) Write(p []byte) (int, error) { return s.s.Write(p) }

// ---- backend ---------------------------------------------------------------------------

// backendRecord is what the fake backend observed.
type backendRecord struct {
	calls      int
	method     string
	path       string
	wirePath   string // URL.EscapedPath(): the path as an HTTP client or reverse proxy puts it on the wire
	rawQuery   string
	proto      string
	protoMajor int
	header     http.Header
	contentLen int64
	body       []byte
	readErr    error
	ctx        context.Context
	writer     http.ResponseWriter
}

// readAll reads the request body with a fixed buffer size until error/EOF.
func readAllSized(r io.Reader, bufSize int, maxReads int) ([]byte, error) {
	var out []byte
	buf := make([]byte, bufSize)
	for i := 0; i < maxReads; i++ {
		n, err := r.Read(buf)
		out = append(out, buf[:n]...)
		if err != nil {
			if err == io.EOF {
				return out, nil
			}
			return out, err
		}
	}
	return out, errors.New("readAllSized: too many reads")
}
