package vanguard

import (
	"fmt"

	"google.golang.org/protobuf/proto"
	"google.golang.org/protobuf/reflect/protodesc"
	"google.golang.org/protobuf/reflect/protoreflect"
	"google.golang.org/protobuf/reflect/protoregistry"
	"google.golang.org/protobuf/types/descriptorpb"
	"google.golang.org/protobuf/types/dynamicpb"
)

// Native side of c20Schema: real descriptors built with protodesc, registered in the real global registries.
// The registries are process-wide and append-only, so every situation uses its own file path and package.

type c20NoParent struct{ protoreflect.ServiceDescriptor }

func (c20NoParent) ParentFile() protoreflect.FileDescriptor { return nil }

var c20Built = map[int]protoreflect.ServiceDescriptor{}

func c20File(idx int) protoreflect.FileDescriptor {
	pkg := fmt.Sprintf("verifc20n%d", idx)
	fdp := &descriptorpb.FileDescriptorProto{
		Name:    proto.String(fmt.Sprintf("verif/c20_%d.proto", idx)),
		Package: proto.String(pkg),
		Syntax:  proto.String("proto3"),
		MessageType: []*descriptorpb.DescriptorProto{
			{Name: proto.String("Req")}, {Name: proto.String("Resp")},
		},
		Service: []*descriptorpb.ServiceDescriptorProto{{
			Name: proto.String("S"),
			Method: []*descriptorpb.MethodDescriptorProto{{
				Name: proto.String("Get"), InputType: proto.String("." + pkg + ".Req"), OutputType: proto.String("." + pkg + ".Resp"),
			}},
		}},
	}
	fd, err := protodesc.NewFile(fdp, nil)
	if err != nil {
		panic(err)
	}
	return fd
}

func c20Schema(fileNil, registered, sameFile, reqKnown, respKnown bool) protoreflect.ServiceDescriptor {
	idx := 0
	for i, b := range []bool{fileNil, registered, sameFile, reqKnown, respKnown} {
		if b {
			idx |= 1 << i
		}
	}
	if svc, ok := c20Built[idx]; ok {
		return svc
	}
	own := c20File(idx)
	if registered {
		reg := own
		if !sameFile {
			reg = c20File(idx) // same path and content, another load
		}
		if err := protoregistry.GlobalFiles.RegisterFile(reg); err != nil {
			panic(err)
		}
	}
	if reqKnown {
		if err := protoregistry.GlobalTypes.RegisterMessage(dynamicpb.NewMessageType(own.Messages().ByName("Req"))); err != nil {
			panic(err)
		}
	}
	if respKnown {
		if err := protoregistry.GlobalTypes.RegisterMessage(dynamicpb.NewMessageType(own.Messages().ByName("Resp"))); err != nil {
			panic(err)
		}
	}
	var svc protoreflect.ServiceDescriptor = own.Services().Get(0)
	if fileNil {
		svc = c20NoParent{svc}
	}
	c20Built[idx] = svc
	return svc
}
