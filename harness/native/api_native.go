package vanguard

// Native twin of the harness API: nondeterministic values come from a replay case.

import (
	"fmt"
)

type verifReplayValue struct {
	Name string `json:"n"`
	Kind string `json:"k"`
	Val  uint64 `json:"v"`
}

type verifObsRec struct {
	Label string `json:"l"`
	Val   string `json:"v"`
}

type verifCaseState struct {
	inputs  []verifReplayValue
	pos     int
	tier    int
	failed  []string
	obs     []verifObsRec
	reached []string
	desync  string
	asserts int
}

type verifStop struct{ kind, reason string }

var verifCur *verifCaseState

func verifNext(name, kind string) uint64 {
	st := verifCur
	if st.pos >= len(st.inputs) {
		if st.desync == "" {
			st.desync = fmt.Sprintf("input exhausted at %s(%s) #%d", kind, name, st.pos)
		}
		panic(verifStop{"desync", st.desync})
	}
	in := st.inputs[st.pos]
	st.pos++
	if in.Name != name || in.Kind != kind {
		st.desync = fmt.Sprintf("input #%d is %s(%s), harness asked %s(%s)", st.pos-1, in.Kind, in.Name, kind, name)
		panic(verifStop{"desync", st.desync})
	}
	return in.Val
}

func verifNondetByte(name string) byte     { return byte(verifNext(name, "byte")) }
func verifNondetUint32(name string) uint32 { return uint32(verifNext(name, "u32")) }
func verifNondetInt64(name string) int64   { return int64(verifNext(name, "i64")) }
func verifNondetBool(name string) bool     { return verifNext(name, "bool") != 0 }
func verifChoose(name string, n int) int {
	v := int(verifNext(name, "choose"))
	if v < 0 || v >= n {
		panic(verifStop{"desync", fmt.Sprintf("choose %s=%d out of range %d", name, v, n)})
	}
	return v
}
func verifAssume(c bool) {
	if !c {
		panic(verifStop{"assume", "assumption false under replayed inputs"})
	}
}
func verifAssert(c bool, label string) {
	verifCur.asserts++
	if !c {
		verifCur.failed = append(verifCur.failed, label)
	}
}
func verifReach(label string)    { verifCur.reached = append(verifCur.reached, label) }
func verifOutside(reason string) { panic(verifStop{"outside", reason}) }
func verifTier() int             { return verifCur.tier }
func verifPoolMode(mode int)     {}
func verifFixedMapOrder(on bool) {}
func verifConcretize(x int) int  { return x }
func verifGhostCount(string) int { return 0 }
func verifObsBytes(label string, b []byte) {
	verifCur.obs = append(verifCur.obs, verifObsRec{label, fmt.Sprintf("%x", b)})
}
func verifObsStr(label string, s string) {
	verifCur.obs = append(verifCur.obs, verifObsRec{label, fmt.Sprintf("%x", s)})
}
func verifObsInt(label string, v int64) {
	verifCur.obs = append(verifCur.obs, verifObsRec{label, fmt.Sprintf("%d", v)})
}
func verifObsBool(label string, v bool) {
	verifCur.obs = append(verifCur.obs, verifObsRec{label, fmt.Sprintf("%v", v)})
}
