package vanguard

import (
	"encoding/json"
	"fmt"
	"os"
	"runtime/debug"
	"strings"
	"testing"
	"time"
)

type verifCase struct {
	ID      string             `json:"id"`
	Harness string             `json:"harness"`
	Inputs  []verifReplayValue `json:"inputs"`
	Tier    int                `json:"tier"`
	Repeat  int                `json:"repeat"`
}

type verifCaseResult struct {
	ID      string        `json:"id"`
	Outcome string        `json:"outcome"` // done | panic | assume | outside | desync | timeout
	Detail  string        `json:"detail,omitempty"`
	Failed  []string      `json:"failed,omitempty"`
	Obs     []verifObsRec `json:"obs,omitempty"`
	Asserts int           `json:"asserts"`
}

func verifRunCase(c verifCase) (res verifCaseResult) {
	res.ID = c.ID
	fn := verifHarnesses[c.Harness]
	if fn == nil {
		res.Outcome = "desync"
		res.Detail = "unknown harness " + c.Harness
		return
	}
	st := &verifCaseState{inputs: c.Inputs, tier: c.Tier}
	verifCur = st
	done := make(chan struct{})
	go func() {
		defer close(done)
		defer func() {
			if r := recover(); r != nil {
				if s, ok := r.(verifStop); ok {
					res.Outcome = s.kind
					res.Detail = s.reason
					return
				}
				res.Outcome = "panic"
				stack := string(debug.Stack())
				if len(stack) > 1500 {
					stack = stack[:1500]
				}
				res.Detail = fmt.Sprintf("%v\n%s", r, stack)
				return
			}
			res.Outcome = "done"
		}()
		fn()
	}()
	select {
	case <-done:
	case <-time.After(20 * time.Second):
		res.Outcome = "timeout"
		return
	}
	res.Failed = st.failed
	res.Obs = st.obs
	res.Asserts = st.asserts
	return
}

func TestVerifReplay(t *testing.T) {
	batch := os.Getenv("VERIF_BATCH")
	out := os.Getenv("VERIF_OUT")
	if batch == "" || out == "" {
		t.Skip("no VERIF_BATCH")
	}
	data, err := os.ReadFile(batch)
	if err != nil {
		t.Fatal(err)
	}
	var cases []verifCase
	if err := json.Unmarshal(data, &cases); err != nil {
		t.Fatal(err)
	}
	// one result line per finished case, written at once: a case that kills the process (fatal error) loses
	// nothing that came before it, and the driver resumes behind it
	f, err := os.OpenFile(out, os.O_CREATE|os.O_WRONLY|os.O_TRUNC, 0o644)
	if err != nil {
		t.Fatal(err)
	}
	defer f.Close()
	for _, c := range cases {
		n := c.Repeat
		if n < 1 {
			n = 1
		}
		var r verifCaseResult
		for i := 0; i < n; i++ {
			r = verifRunCase(c)
			if r.Outcome == "panic" || len(r.Failed) > 0 {
				break
			}
		}
		r.Detail = strings.ToValidUTF8(r.Detail, "?")
		b, _ := json.Marshal(r)
		if _, err := f.Write(append(b, '\n')); err != nil {
			t.Fatal(err)
		}
		if r.Outcome == "timeout" {
			// the case's goroutine is still running (and may be allocating): end the process; the driver
			// resumes with the next case
			f.Close()
			os.Exit(3)
		}
	}
}
