package vanguard

import (
	"strings"

	"connectrpc.com/connect"
	"google.golang.org/genproto/googleapis/api/annotations"
	"google.golang.org/protobuf/reflect/protoreflect"
)

var paramKinds = [11]protoreflect.Kind{
	protoreflect.BoolKind,
	protoreflect.Int32Kind, protoreflect.Sint32Kind, protoreflect.Sfixed32Kind,
	protoreflect.Int64Kind, protoreflect.Sint64Kind, protoreflect.Sfixed64Kind,
	protoreflect.Uint32Kind, protoreflect.Fixed32Kind,
	protoreflect.Uint64Kind, protoreflect.Fixed64Kind,
}

// refParamScalar: independent reading of a parameter for a bool / integer field, written from the proto3 JSON
// mapping restricted to what a URL parameter can be: optional JSON whitespace around `true` / `false`, or around
// a decimal integer without leading zeros that fits the field's type. grey = literals the reference leaves open
// (anything that starts like a JSON string, array or object); `null` is not a value of these types.
func refParamScalar(kind protoreflect.Kind, in []byte) (ok bool, val uint64, grey bool) {
	i, j := 0, len(in)
	for i < j && (in[i] == ' ' || in[i] == '\t' || in[i] == '\r' || in[i] == '\n') {
		i++
	}
	for j > i && (in[j-1] == ' ' || in[j-1] == '\t' || in[j-1] == '\r' || in[j-1] == '\n') {
		j--
	}
	tok := in[i:j]
	if len(tok) == 0 {
		return false, 0, false
	}
	if string(tok) == "null" {
		return false, 0, false // not a value of a bool or integer type: taking it for 0 / false would be a coercion
	}
	if tok[0] == '"' || tok[0] == '[' || tok[0] == '{' {
		return false, 0, true
	}
	if kind == protoreflect.BoolKind {
		switch string(tok) {
		case "true":
			return true, 1, false
		case "false":
			return true, 0, false
		}
		return false, 0, false
	}
	neg := false
	k := 0
	if tok[0] == '-' {
		neg = true
		k = 1
	}
	digits := tok[k:]
	if len(digits) == 0 || (len(digits) > 1 && digits[0] == '0') {
		return false, 0, false
	}
	var mag uint64
	for _, c := range digits {
		if c < '0' || c > '9' {
			return false, 0, false
		}
		if mag > 1844674407370955161 || (mag == 1844674407370955161 && c > '5') {
			return false, 0, false
		}
		mag = mag*10 + uint64(c-'0')
	}
	switch kind {
	case protoreflect.Int32Kind, protoreflect.Sint32Kind, protoreflect.Sfixed32Kind:
		if (neg && mag > 1<<31) || (!neg && mag > 1<<31-1) {
			return false, 0, false
		}
	case protoreflect.Int64Kind, protoreflect.Sint64Kind, protoreflect.Sfixed64Kind:
		if (neg && mag > 1<<63) || (!neg && mag > 1<<63-1) {
			return false, 0, false
		}
	case protoreflect.Uint32Kind, protoreflect.Fixed32Kind:
		if neg || mag > 1<<32-1 {
			return false, 0, false
		}
	default:
		if neg {
			return false, 0, false
		}
	}
	if neg {
		return true, -mag, false
	}
	return true, mag, false
}

func kindIs32(k protoreflect.Kind) bool {
	switch k {
	case protoreflect.Int32Kind, protoreflect.Sint32Kind, protoreflect.Sfixed32Kind, protoreflect.Uint32Kind, protoreflect.Fixed32Kind:
		return true
	}
	return false
}

// hParamScalar: a URL parameter (path variable or query value) for a bool or integer field is either applied
// with exactly the value it denotes, or rejected as invalid_argument - never coerced (no truncation, wrap-around,
// fraction or exponent, no "1" for true); and a value written back into a URL (getParameter) reads back as the
// same value. Every parameter text up to the bound, all 11 bool/integer kinds.
func hParamScalar() {
	kind := paramKinds[verifChoose("kind", len(paramKinds))]
	field := &fakeField{name: "f", kind: kind}
	fields := []protoreflect.FieldDescriptor{field}
	msg := &fakeMsg{desc: newFakeMsgDesc("p.M", field)}
	maxLen := 3
	if verifTier() == 1 {
		maxLen = 4
	}
	var in []byte
	if verifChoose("nullLiteral", 2) == 1 {
		in = []byte("null") // (longer than the quick tier's symbolic texts)
	} else {
		in = nondetBytes("param", verifChoose("len", maxLen)+1)
	}
	ok, want, grey := refParamScalar(kind, in)
	if grey {
		// texts that start like a JSON string, array or object (only the real decoder validates those) are left open
		return
	}
	err := setParameter(msg, fields, string(in))
	verifObsBool("accepted", err == nil)
	verifObsInt("value", int64(msg.fnum[0]))
	verifReach("decided")
	if err != nil {
		verifAssert(connect.CodeOf(err) == connect.CodeInvalidArgument, "C07: a parameter that does not fit its field's type is rejected as invalid_argument")
	}
	verifAssert((err == nil) == ok, "C07: a parameter is accepted exactly when it denotes a value of the field's type (never coerced)")
	if err != nil || !ok {
		return
	}
	verifReach("accepted")
	got := msg.fnum[0]
	if kindIs32(kind) {
		got, want = uint64(uint32(got)), uint64(uint32(want))
	}
	verifAssert(msg.fset[0] && got == want, "C07: an accepted parameter sets exactly the value it denotes")
	// back into a URL and in again
	text, gerr := getParameter(msg, fields, 0)
	verifAssert(gerr == nil, "C07: a scalar field value can be written into a URL")
	if gerr != nil {
		return
	}
	verifObsStr("url-text", text)
	msg2 := &fakeMsg{desc: msg.desc}
	verifAssert(setParameter(msg2, fields, text) == nil && msg2.fnum[0] == msg.fnum[0], "C07: a scalar written into a URL reads back as the same value")
}

// hParamBoundary: the same property at the places where coercion would hide - decimal literals with as many
// digits as the field type's limits (9-11 digits for 32-bit kinds, 18-20 for 64-bit kinds), with or without a
// minus sign, every digit symbolic: accepted exactly when the number fits the field's type, and then stored
// exactly (no wrap-around into the 32/64-bit range, no sign loss).
func hParamBoundary() {
	kind := paramKinds[1+verifChoose("kind", len(paramKinds)-1)]
	field := &fakeField{name: "f", kind: kind}
	fields := []protoreflect.FieldDescriptor{field}
	msg := &fakeMsg{desc: newFakeMsgDesc("p.M", field)}
	base := 18
	if kindIs32(kind) {
		base = 9
	}
	n := base + verifChoose("digits", 3)
	var in []byte
	if verifChoose("negative", 2) == 1 {
		in = append(in, '-')
	}
	digits := nondetBytes("digit", n)
	for i, d := range digits {
		verifAssume(d >= '0' && d <= '9')
		if i == 0 {
			verifAssume(d != '0')
		}
	}
	in = append(in, digits...)
	ok, want, _ := refParamScalar(kind, in)
	err := setParameter(msg, fields, string(in))
	verifObsBool("accepted", err == nil)
	verifObsInt("value", int64(msg.fnum[0]))
	verifReach("boundary-literal")
	if err != nil {
		verifAssert(connect.CodeOf(err) == connect.CodeInvalidArgument, "C07: a number outside its field's range is rejected as invalid_argument")
	}
	verifAssert((err == nil) == ok, "C07: a decimal literal is accepted exactly when it fits the field's type (no wrap-around)")
	if err != nil || !ok {
		return
	}
	verifReach("boundary-accepted")
	got := msg.fnum[0]
	if kindIs32(kind) {
		got, want = uint64(uint32(got)), uint64(uint32(want))
	}
	verifAssert(got == want, "C07: an accepted decimal literal is stored exactly")
}

const refB64Std = "ABCDEFGHIJKLMNOPQRSTUVWXYZabcdefghijklmnopqrstuvwxyz0123456789+/"

// refBase64Decode: independent base64 reader: both alphabets ('+' '/' or '-' '_', not mixed), with or without
// '=' padding (complete padding only), no stray bits check beyond what RFC 4648 decoders of Go enforce (none).
func refBase64Decode(raw []byte) ([]byte, bool) {
	// CR and LF are skipped wherever they stand (MIME line breaks; encoding/base64 documents this leniency and
	// the property does not forbid it) - but the choice of padded/unpadded form is made on the raw length
	var in []byte
	for _, c := range raw {
		if c != '\r' && c != '\n' {
			in = append(in, c)
		}
	}
	n := len(in)
	pad := 0
	for n > 0 && in[n-1] == '=' && pad < 2 {
		n--
		pad++
	}
	if pad > 0 && (n+pad)%4 != 0 {
		return nil, false
	}
	if n%4 == 1 {
		return nil, false
	}
	std, url := false, false
	var out []byte
	var acc uint32
	bits := 0
	for i := 0; i < n; i++ {
		c := in[i]
		var v uint32
		switch {
		case c >= 'A' && c <= 'Z':
			v = uint32(c - 'A')
		case c >= 'a' && c <= 'z':
			v = uint32(c-'a') + 26
		case c >= '0' && c <= '9':
			v = uint32(c-'0') + 52
		case c == '+':
			v, std = 62, true
		case c == '/':
			v, std = 63, true
		case c == '-':
			v, url = 62, true
		case c == '_':
			v, url = 63, true
		default:
			return nil, false
		}
		acc = acc<<6 | v
		bits += 6
		if bits >= 8 {
			bits -= 8
			out = append(out, byte(acc>>uint(bits)))
		}
	}
	if std && url {
		return nil, false
	}
	return out, true
}

// hParamBytes: bytes fields in URLs. (a) every byte string written into a URL (getParameter: URL-safe base64)
// reads back as the same bytes; the standard alphabet and unpadded forms read back too. (b) an arbitrary
// parameter text is either rejected as invalid_argument or decodes to exactly the bytes it denotes.
func hParamBytes() {
	field := &fakeField{name: "f", kind: protoreflect.BytesKind}
	fields := []protoreflect.FieldDescriptor{field}
	msg := &fakeMsg{desc: newFakeMsgDesc("p.M", field)}
	if verifChoose("direction", 2) == 0 {
		maxLen := 3
		if verifTier() == 1 {
			maxLen = 5
		}
		data := nondetBytes("data", verifChoose("len", maxLen+1))
		msg.fvals[0], msg.fset[0] = string(data), true
		text, err := getParameter(msg, fields, 0)
		verifObsStr("url-text", text)
		verifReach("bytes-to-url")
		verifAssert(err == nil, "C07: a bytes field can be written into a URL")
		forms := []string{text, strings.TrimRight(text, "=")}
		std := strings.ReplaceAll(strings.ReplaceAll(text, "-", "+"), "_", "/")
		forms = append(forms, std, strings.TrimRight(std, "="))
		for _, f := range forms {
			back := &fakeMsg{desc: msg.desc}
			verifAssert(setParameter(back, fields, f) == nil && back.fvals[0] == string(data), "C07: bytes written into a URL (either alphabet, padded or not) read back unchanged")
		}
		return
	}
	maxLen := 3
	if verifTier() == 1 {
		maxLen = 4
	}
	in := nondetBytes("param", verifChoose("len", maxLen)+1)
	err := setParameter(msg, fields, string(in))
	want, ok := refBase64Decode(in)
	verifObsBool("accepted", err == nil)
	verifObsStr("value", msg.fvals[0])
	verifReach("text-to-bytes")
	if err != nil {
		verifAssert(connect.CodeOf(err) == connect.CodeInvalidArgument, "C07: a parameter that is not base64 is rejected as invalid_argument")
		return
	}
	verifReach("text-accepted")
	verifAssert(ok && msg.fvals[0] == string(want), "C07: an accepted bytes parameter denotes exactly the stored bytes")
}

// hParamEnum: enum fields in URLs. A parameter is accepted when it is a value name of the enum or a plain
// 32-bit integer literal (open enums), and then stored as exactly that number; anything else is rejected as
// invalid_argument; a known number written into a URL is written by name and reads back.
func hParamEnum() {
	enum := &fakeEnum{name: "p.Color", values: &fakeEnumValues{list: []*fakeEnumValue{{name: "RED", num: 0}, {name: "G", num: 1}, {name: "BLUE5", num: 5}}}}
	field := &fakeField{name: "f", kind: protoreflect.EnumKind, enum: enum}
	fields := []protoreflect.FieldDescriptor{field}
	msg := &fakeMsg{desc: newFakeMsgDesc("p.M", field)}
	maxLen := 3
	if verifTier() == 1 {
		maxLen = 5
	}
	in := nondetBytes("param", verifChoose("len", maxLen)+1)
	numOK, numVal, grey := refParamScalar(protoreflect.Int32Kind, in)
	if grey {
		return
	}
	var nameVal *fakeEnumValue
	for _, v := range enum.values.list {
		if v.name == string(in) {
			nameVal = v
		}
	}
	err := setParameter(msg, fields, string(in))
	verifObsBool("accepted", err == nil)
	verifObsInt("value", int64(int32(msg.fnum[0])))
	verifReach("enum-decided")
	if err != nil {
		verifAssert(connect.CodeOf(err) == connect.CodeInvalidArgument, "C07: a parameter that names no enum value is rejected as invalid_argument")
	}
	verifAssert((err == nil) == (numOK || nameVal != nil), "C07: an enum parameter is accepted exactly when it is a value name or an integer literal")
	if err != nil {
		return
	}
	verifReach("enum-accepted")
	want := int32(numVal)
	if nameVal != nil {
		want = int32(nameVal.num)
	}
	verifAssert(msg.fset[0] && int32(msg.fnum[0]) == want, "C07: an accepted enum parameter sets exactly the number it denotes")
	text, gerr := getParameter(msg, fields, 0)
	known := enum.values.ByNumber(protoreflect.EnumNumber(want)) != nil
	verifAssert((gerr == nil) == known, "C07: an enum value with a name can be written into a URL")
	if gerr != nil {
		return
	}
	verifObsStr("url-text", text)
	back := &fakeMsg{desc: msg.desc}
	verifAssert(setParameter(back, fields, text) == nil && int32(back.fnum[0]) == want, "C07: an enum value written into a URL reads back as the same number")
}

// hC07Repeated: a repeated field carried in the query string. RPC client -> REST backend: every element appears
// as its own "tags=..." pair, in order (httpEncodePathValues); REST client -> RPC backend: every pair is
// appended, in order (setParameter); so a list converted to a URL and back is unchanged.
func hC07Repeated() {
	tags := &fakeField{name: "tags", kind: protoreflect.StringKind, repeated: true}
	desc := newFakeMsgDesc("p.R", &fakeField{name: "name", kind: protoreflect.StringKind}, tags)
	svc := newFakeService(pipeSvc)
	svc.addMethodIn(pipeMethod, fkUnary, 0, false, desc)
	fc := &fakeConfig{protocols: []Protocol{ProtocolREST}, codecs: []string{CodecJSON}, maxMsg: 4096, fieldsMode: true}
	rules := []*annotations.HttpRule{{Selector: pipeSvc + "." + pipeMethod, Pattern: &annotations.HttpRule_Get{Get: "/v1/{name}"}}}
	tr, err := newFakeTranscoder(svc, &pipeBackend{}, fc, rules, nil)
	verifAssert(err == nil, "rule with a repeated query field accepted")
	if err != nil {
		return
	}
	target, _, _ := tr.restRoutes.match("/v1/x", "GET")
	verifAssert(target != nil, "route reachable")
	if target == nil {
		return
	}
	n := verifChoose("elements", 4)
	msg := &fakeMsg{desc: desc}
	msg.fvals[0], msg.fset[0] = "x", true
	var want []string
	for i := 0; i < n; i++ {
		v := string(nondetBytes("tag", 1))
		want = append(want, v)
	}
	msg.flist[1], msg.fset[1] = want, n > 0
	path, query, eerr := httpEncodePathValues(msg, target)
	verifObsStr("path", path)
	verifObsInt("query-values", int64(len(query["tags"])))
	verifReach("list-to-url")
	verifAssert(eerr == nil && path == "/v1/x", "C07: a message with a repeated field converts to a URL")
	if eerr != nil {
		return
	}
	got := query["tags"]
	same := len(got) == n
	for i := 0; same && i < n; i++ {
		same = got[i] == want[i]
	}
	verifAssert(same, "C01: no element of a repeated field is lost or reordered on the way to a REST backend")
	verifAssert(same, "C07: every element of a repeated field appears in the query string, in order")
	// and back in
	back := &fakeMsg{desc: desc}
	for _, v := range got {
		verifAssert(setParameter(back, []protoreflect.FieldDescriptor{tags}, v) == nil, "C07: a repeated query parameter is accepted")
	}
	sameBack := len(back.flist[1]) == n
	for i := 0; sameBack && i < n; i++ {
		sameBack = back.flist[1][i] == want[i]
	}
	verifAssert(sameBack, "C07: a repeated field converted to a URL and back is unchanged")
}

// hParamRepeatedWKT: a repeated field of a well-known scalar wrapper type (e.g. repeated
// google.protobuf.StringValue) named by a query parameter: the parameter is either applied (one element
// appended) or rejected as invalid_argument - it never crashes the request.
func hParamRepeatedWKT() {
	wkt := []string{"google.protobuf.StringValue", "google.protobuf.DoubleValue", "google.protobuf.Timestamp", "google.protobuf.Int32Value"}[verifChoose("type", 4)]
	elem := newFakeMsgDesc(wkt, &fakeField{name: "value", kind: protoreflect.StringKind})
	field := &fakeField{name: "items", kind: protoreflect.MessageKind, repeated: true, msg: elem}
	fields := []protoreflect.FieldDescriptor{field}
	msg := &fakeMsg{desc: newFakeMsgDesc("p.M", &fakeField{name: "name", kind: protoreflect.StringKind}, field)}
	in := nondetBytes("param", 1)
	verifReach("repeated-wrapper-parameter")
	err := setParameter(msg, fields, string(in))
	verifObsBool("accepted", err == nil)
	verifReach("repeated-wrapper-decided")
	if err != nil {
		verifAssert(connect.CodeOf(err) == connect.CodeInvalidArgument, "C07: a parameter that does not fit a repeated wrapper field is rejected as invalid_argument")
		return
	}
	verifAssert(len(msg.flist[1]) == 1, "C07: an accepted parameter for a repeated wrapper field appends one element")
}
