package vanguard

// hC08Seg: the same RPC run twice - unsegmented (whole body in one Read, 16-byte handler reads, one
// Write per frame) and segmented (client body in 1..3-byte pieces, handler reads of 1..7 bytes,
// backend writes split / byte-by-byte / all-in-one / with empty writes and flushes) - must hand the
// same bytes to the backend and the same response to the client, and both must match the reference.
func hC08Seg() {
	cfg, ok := pickAdapterCfgNarrow()
	if !ok {
		return
	}
	if pipeIsPassThrough(cfg) {
		return
	}
	target, codec, comp := refNegotiate(cfg)
	unaryKind := cfg.kind == fkUnary
	targetEnveloped := target == ProtocolGRPC || target == ProtocolGRPCWeb || (target == ProtocolConnect && !unaryKind)
	// one direction is varied at a time (the two directions do not share buffers within an RPC)
	varyReq := verifChoose("direction", 2) == 0
	varyResp := !varyReq
	if verifTier() == 1 {
		// deep messages on the varied side only (see pickPipeCfg: thorough slices)
		if varyReq {
			pipeThoroughSlice = sliceDeepReq
		} else {
			pipeThoroughSlice = sliceDeepResp
		}
	}
	reqMsgs := []wireMsg{{abstract: []byte{'q'}}}
	if varyReq {
		reqMsgs = pickMsgs("req", clientEnveloped(cfg.client), cfg.clientComp, unaryKind)
	}
	backendComp := cfg.svcComp && varyResp && verifChoose("respComp", 2) == 1
	respMsgs := []wireMsg{{abstract: []byte{'r'}}}
	if varyResp {
		respMsgs = pickMsgs("resp", targetEnveloped, backendComp, unaryKind)
	}

	// segmentation profile: thorough crosses every dimension, quick picks from six combined profiles
	var chunk, bufSize, mode, splitAt int
	var eofWithData bool
	emptyReadAt := 0
	if verifTier() == 1 {
		// thorough: every combination of the dimensions that act on the varied side
		chunk, bufSize, mode = 4096, 16, wmFrame
		if varyReq {
			chunk = verifChoose("chunk", 3) + 1
			bufSize = []int{1, 2, 3, 5}[verifChoose("bufsize", 4)]
			eofWithData = verifChoose("eofWithData", 2) == 1
			if !eofWithData && bufSize == 5 { // (crossed with the chunk sizes only: a full cross product with the handler's read sizes does not finish)
				emptyReadAt = []int{0, 1, 2, 4, 7}[verifChoose("emptyReadAt", 5)] // 0 = never
			}
		} else {
			mode = verifChoose("writeMode", 5)
			if mode == wmSplit {
				splitAt = verifChoose("splitAt", 6) + 1
			}
		}
	} else {
		switch verifChoose("profile", 8) {
		case 6: // a client body delivered byte by byte whose second Read returns (0, nil): inside the body of a client without envelopes
			chunk, bufSize, mode, emptyReadAt = 1, 16, wmFrame, 2
		case 7: // ... whose seventh Read does: inside the payload of an enveloped client's first message
			chunk, bufSize, mode, emptyReadAt = 1, 3, wmFrame, 7
		case 0:
			chunk, bufSize, mode = 1, 1, wmBytes
		case 1:
			chunk, bufSize, mode, splitAt = 2, 3, wmSplit, 1
		case 2:
			chunk, bufSize, mode, splitAt = 3, 4, wmSplit, 5
		case 3:
			chunk, bufSize, mode = 1, 7, wmOneShot
		case 4:
			chunk, bufSize, mode = 3, 2, wmNoisy
		default:
			chunk, bufSize, mode, splitAt, eofWithData = 2, 5, wmSplit, 6, true
		}
	}
	declareLen := !targetEnveloped && verifChoose("declareLen", 2) == 1
	// the backend may also fail the RPC (HTTP error status plus body for backends without envelopes)
	var errCode uint32
	if varyResp && verifChoose("backendFails", 2) == 1 {
		errCode = 5
	}

	// reference run
	ref := newPipe(cfg)
	if !ref.buildOK {
		return
	}
	ref.backend.script = &respScript{msgs: respMsgs, comp: backendComp, declareLen: declareLen, errCode: errCode, errMsg: "nf", errAfter: len(respMsgs)}
	ref.serve(reqMsgs)

	// segmented run
	seg := newPipe(cfg)
	seg.backend.script = &respScript{msgs: respMsgs, comp: backendComp, writeMode: mode, splitAt: splitAt, declareLen: declareLen, errCode: errCode, errMsg: "nf", errAfter: len(respMsgs)}
	seg.backend.bufSize = bufSize
	seg.body.chunk = chunk
	seg.body.eofWithData = eofWithData
	seg.body.emptyReadAt = emptyReadAt
	seg.serve(reqMsgs)

	verifObsBytes("ref-backend-body", ref.backend.rec.body)
	verifObsBytes("seg-backend-body", seg.backend.rec.body)
	verifObsBytes("ref-client-body", ref.sink.body)
	verifObsBytes("seg-client-body", seg.sink.body)
	if target == ProtocolConnect && unaryKind && ref.backend.rec.method == "GET" {
		verifOutside("Connect GET towards the backend is decided in C19")
	}
	verifReach("both-runs")
	verifAssert(ref.backend.rec.calls == seg.backend.rec.calls, "C08: dispatch does not depend on segmentation")
	verifAssert(bytesEq(ref.backend.rec.body, seg.backend.rec.body), "C08: request bytes read by the backend do not depend on segmentation")
	verifAssert((ref.backend.rec.readErr == nil) == (seg.backend.rec.readErr == nil), "C08: backend read outcome does not depend on segmentation")
	verifAssert(ref.sink.status == seg.sink.status, "C08: response status does not depend on segmentation")
	verifAssert(bytesEq(ref.sink.body, seg.sink.body), "C08: response body does not depend on segmentation")
	verifAssert(headersEqual(ref.sink.hdr, seg.sink.hdr), "C08: response headers/trailers do not depend on segmentation")
	// and the common result is the right one
	out := refParseClientResponse(cfg, seg.sink, seg.backend.rec.calls > 0)
	if out.valid && out.code == 0 {
		verifReach("success")
		got, parsed := refParseBackendBody(target, unaryKind, codec, comp, seg.backend.rec.body)
		verifAssert(parsed && sameMsgs(got, reqMsgs), "C08: segmented request delivers the client's messages")
		verifAssert(sameMsgs(out.msgs, respMsgs), "C08: segmented response delivers the handler's messages")
	}
}

// hC08Limit: segmentation independence at the message size limit (L=4): one request or response message of
// 3, 5 or 9 bytes, optionally re-encoded by a bulky codec; whether the RPC is accepted or refused with
// resource_exhausted must not depend on how the same bytes are cut into Reads and Writes.
func hC08Limit() {
	cfg, ok := pickAdapterCfgNarrow()
	if !ok {
		return
	}
	if pipeIsPassThrough(cfg) {
		return
	}
	cfg.maxMsg = 4
	if verifChoose("bulkyJSON", 2) == 1 {
		cfg.jsonRepeat = 3
	}
	target, _, _ := refNegotiate(cfg)
	unaryKind := cfg.kind == fkUnary
	targetEnveloped := target == ProtocolGRPC || target == ProtocolGRPCWeb || (target == ProtocolConnect && !unaryKind)
	size := []int{3, 5, 9}[verifChoose("size", 3)]
	big := []byte("abcdefghi")[:size]
	reqMsgs := []wireMsg{{abstract: []byte{'q'}, compressed: cfg.clientComp}}
	respMsgs := []wireMsg{{abstract: []byte{'r'}}}
	if verifChoose("direction", 2) == 0 {
		reqMsgs[0].abstract = big
	} else {
		respMsgs[0].abstract = big
	}
	var chunk, bufSize, mode, splitAt int
	switch verifChoose("profile", 4) {
	case 0:
		chunk, bufSize, mode = 1, 1, wmBytes
	case 1:
		chunk, bufSize, mode, splitAt = 2, 3, wmSplit, 4
	case 2:
		chunk, bufSize, mode = 3, 7, wmNoisy
	default:
		chunk, bufSize, mode, splitAt = 4, 4, wmSplit, 2
	}
	declareLen := !targetEnveloped && verifChoose("declareLen", 2) == 1

	ref := newPipe(cfg)
	if !ref.buildOK {
		return
	}
	ref.backend.script = &respScript{msgs: respMsgs, declareLen: declareLen}
	ref.serve(reqMsgs)

	seg := newPipe(cfg)
	seg.backend.script = &respScript{msgs: respMsgs, writeMode: mode, splitAt: splitAt, declareLen: declareLen}
	seg.backend.bufSize = bufSize
	seg.body.chunk = chunk
	seg.serve(reqMsgs)

	verifObsInt("ref-status", int64(ref.sink.status))
	verifObsInt("seg-status", int64(seg.sink.status))
	verifObsBytes("ref-client-body", ref.sink.body)
	verifObsBytes("seg-client-body", seg.sink.body)
	if target == ProtocolConnect && unaryKind && ref.backend.rec.method == "GET" {
		verifOutside("Connect GET towards the backend is decided in C19")
	}
	verifReach("both-runs-at-the-limit")
	refOut := refParseClientResponse(cfg, ref.sink, ref.backend.rec.calls > 0)
	segOut := refParseClientResponse(cfg, seg.sink, seg.backend.rec.calls > 0)
	verifAssert(ref.backend.rec.calls == seg.backend.rec.calls, "C08: dispatch at the size limit does not depend on segmentation")
	verifAssert(ref.sink.status == seg.sink.status, "C08: response status at the size limit does not depend on segmentation")
	verifAssert(refOut.valid == segOut.valid && refOut.code == segOut.code, "C08: acceptance or refusal at the size limit does not depend on segmentation")
	if refOut.valid && segOut.valid && refOut.code == 0 && segOut.code == 0 {
		verifReach("accepted-both")
		verifAssert(bytesEq(ref.sink.body, seg.sink.body), "C08: response body at the size limit does not depend on segmentation")
		verifAssert(bytesEq(ref.backend.rec.body, seg.backend.rec.body), "C08: request bytes at the size limit do not depend on segmentation")
	}
}
