package vanguard

// refFlags: which flag bytes a protocol/direction accepts, and what they mean (DESIGN E.1).
// kind: 0 = gRPC (req/resp) and gRPC-Web request, Connect stream request : {0,1}
//
//	1 = gRPC-Web response: {0,1,0x80,0x81}
//	2 = Connect stream response: {0,1,2,3}
func refFlagOK(kind int, f byte) (ok, compressed, end bool) {
	switch kind {
	case 0:
		return f == 0 || f == 1, f == 1, false
	case 1:
		return f&0x7e == 0, f&1 != 0, f&0x80 != 0
	default:
		return f&0xfc == 0, f&1 != 0, f&2 != 0
	}
}

func refBE32(b []byte) uint32 {
	return uint32(b[0])<<24 | uint32(b[1])<<16 | uint32(b[2])<<8 | uint32(b[3])
}

type envDecoder interface {
	decodeEnvelope(envelopeBytes) (envelope, error)
}

// envelope decoders by index with their reference kind.
func envDecoderFor(i int) (envDecoder, int) {
	switch i {
	case 0:
		return grpcClientProtocol{}, 0
	case 1:
		return grpcWebClientProtocol{}, 0
	case 2:
		return connectStreamClientProtocol{}, 0
	case 3:
		return grpcServerProtocol{}, 0
	case 4:
		return grpcWebServerProtocol{}, 1
	default:
		return connectStreamServerProtocol{}, 2
	}
}

// hEnvelopeDecode: each of the six decoders accepts exactly the flag bytes its protocol allows
// (all 256 values), and reports compressed/end/length as the spec defines (all 2^32 lengths).
func hEnvelopeDecode() {
	which := verifChoose("decoder", 6)
	dec, kind := envDecoderFor(which)
	var b envelopeBytes
	for i := range b {
		b[i] = verifNondetByte("env")
	}
	env, err := dec.decodeEnvelope(b)
	ok, comp, end := refFlagOK(kind, b[0])
	if !ok {
		verifReach("invalid-flags")
		verifAssert(err != nil, "invalid envelope flags rejected")
		return
	}
	verifReach("valid-flags")
	verifAssert(err == nil, "valid envelope flags accepted")
	if err != nil {
		return
	}
	verifObsBool("compressed", env.compressed)
	verifObsBool("trailer", env.trailer)
	verifObsInt("length", int64(env.length))
	verifAssert(env.compressed == comp, "compressed flag decoded")
	verifAssert(env.trailer == end, "end-of-stream flag decoded")
	verifAssert(env.length == refBE32(b[1:]), "length is big-endian uint32")
}

type envEncoder interface {
	encodeEnvelope(envelope) envelopeBytes
}

// encoders: what the transcoder writes towards a backend (server protocols, request direction) and
// towards a client (client protocols, response direction). kind = what the receiver accepts.
func envEncoderFor(i int) (envEncoder, int) {
	switch i {
	case 0:
		return grpcServerProtocol{}, 0 // request to gRPC backend
	case 1:
		return grpcWebServerProtocol{}, 0 // request to gRPC-Web backend
	case 2:
		return connectStreamServerProtocol{}, 0 // request to Connect backend
	case 3:
		return grpcClientProtocol{}, 0 // response to gRPC client (no end frame in body)
	case 4:
		return grpcWebClientProtocol{}, 1 // response to gRPC-Web client
	default:
		return connectStreamClientProtocol{}, 2 // response to Connect client
	}
}

// hEnvelopeEncode: every envelope the transcoder can emit is valid for its receiver and states
// exactly the compressed bit, the end bit (where the protocol has one) and the length given.
func hEnvelopeEncode() {
	which := verifChoose("encoder", 6)
	enc, kind := envEncoderFor(which)
	env := envelope{compressed: verifNondetBool("compressed"), length: verifNondetUint32("length")}
	if kind != 0 {
		env.trailer = verifNondetBool("trailer")
	}
	b := enc.encodeEnvelope(env)
	verifObsBytes("bytes", b[:])
	ok, comp, end := refFlagOK(kind, b[0])
	verifReach("encoded")
	verifAssert(ok, "emitted flag byte is valid for the receiver")
	verifAssert(comp == env.compressed, "emitted compressed bit matches")
	verifAssert(end == env.trailer, "emitted end bit matches")
	verifAssert(refBE32(b[1:]) == env.length, "emitted length is big-endian payload size")
}
