package vanguard

import (
	"google.golang.org/protobuf/reflect/protoreflect"
	"google.golang.org/protobuf/reflect/protoregistry"
)

// Symbolic-engine side of c20Schema (the native side, harness/native/c20_schema_native.go, builds the same
// situations with real descriptors in the real protoregistry.GlobalFiles / GlobalTypes).
//
// The two global registries are modelled by their lookup contract: FindFileByPath returns the file
// registered under that path or NotFound; FindMessageByName returns a type for a registered name or NotFound.

type fakeFileDesc struct {
	protoreflect.FileDescriptor
	path string
}

func (f *fakeFileDesc) Path() string { return f.path }

var symGlobalFiles map[string]protoreflect.FileDescriptor
var symGlobalTypes map[string]bool

func verifModel_google_golang_org_protobuf_reflect_protoregistry_Files_FindFileByPath(r *protoregistry.Files, path string) (protoreflect.FileDescriptor, error) {
	if fd, ok := symGlobalFiles[path]; ok {
		return fd, nil
	}
	return nil, protoregistry.NotFound
}

func verifModel_google_golang_org_protobuf_reflect_protoregistry_Types_FindMessageByName(r *protoregistry.Types, name protoreflect.FullName) (protoreflect.MessageType, error) {
	if symGlobalTypes[string(name)] {
		return &fakeMsgType{desc: newFakeMsgDesc(string(name))}, nil
	}
	return nil, protoregistry.NotFound
}

// c20Schema returns a service descriptor (one unary method Get(Req) returns (Resp)) in the given situation.
func c20Schema(fileNil, registered, sameFile, reqKnown, respKnown bool) protoreflect.ServiceDescriptor {
	symGlobalFiles = map[string]protoreflect.FileDescriptor{}
	symGlobalTypes = map[string]bool{}
	svc := newFakeService("verifc20.S")
	m := svc.addMethod("Get", fkUnary, 0, false)
	own := &fakeFileDesc{path: "verif/c20.proto"}
	if !fileNil {
		svc.file = own
	}
	if registered {
		if sameFile {
			symGlobalFiles[own.path] = own
		} else {
			symGlobalFiles[own.path] = &fakeFileDesc{path: own.path} // same path, another load of the schema
		}
	}
	if reqKnown {
		symGlobalTypes[m.in.name] = true
	}
	if respKnown {
		symGlobalTypes[m.out.name] = true
	}
	return svc
}
