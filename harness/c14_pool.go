package vanguard

import (
	"bytes"
	"google.golang.org/genproto/googleapis/api/annotations"
	"net/http"
	"net/url"
	"sync"

	"connectrpc.com/connect"
)

// drainDistinct takes up to n objects out of a pool and reports whether they are pairwise distinct:
// an object that was released twice comes out twice (two owners at once).
func drainDistinct(p *sync.Pool, n int) bool {
	var seen []any
	ok := true
	for i := 0; i < n; i++ {
		x := p.Get()
		if x == nil {
			break
		}
		for _, s := range seen {
			switch a := s.(type) {
			case *bytes.Buffer:
				if b, isB := x.(*bytes.Buffer); isB && a == b {
					ok = false
				}
			case connect.Compressor:
				if b, isB := x.(connect.Compressor); isB && a == b {
					ok = false
				}
			case connect.Decompressor:
				if b, isB := x.(connect.Decompressor); isB && a == b {
					ok = false
				}
			}
		}
		seen = append(seen, x)
	}
	return ok
}

// drainUnshared takes up to n buffers out of the buffer pool and reports whether they are pairwise distinct
// objects over pairwise distinct memory: each one is given its own marker, and every marker must still be
// there afterwards (two Buffers over one array overwrite each other's).
func drainUnshared(p *sync.Pool, n int, owned ...*bytes.Buffer) bool {
	var seen []*bytes.Buffer
	ok := true
	seen = append(seen, owned...) // buffers somebody else was handed earlier and still holds: must not come out again
	nOwned := len(owned)
	for i := 0; i < n; i++ {
		x := p.Get()
		if x == nil {
			break
		}
		b, isB := x.(*bytes.Buffer)
		if !isB {
			continue
		}
		for _, s := range seen {
			if s == b {
				ok = false
			}
		}
		b.Reset()
		b.WriteString("MARKER-")
		b.WriteByte(byte('0' + i))
		seen = append(seen, b)
	}
	for i, b := range seen[nOwned:] {
		want := "MARKER-" + string([]byte{byte('0' + i)})
		if b.String() != want {
			ok = false
		}
	}
	return ok
}

func poolsSound(tr *Transcoder, owned ...*bytes.Buffer) bool {
	ok := drainUnshared(&tr.bufferPool.Pool, 8, owned...)
	if cp := tr.compressors[CompressionGzip]; cp != nil {
		// these pools have a New func, so draining always yields objects: distinctness over 4 draws
		ok = drainDistinct(&cp.compressors, 4) && ok
		ok = drainDistinct(&cp.decompressors, 4) && ok
	}
	return ok
}

// hC14Pool: on every adapter path, for well-formed and hostile RPCs, no pooled buffer or (de)compressor
// is released twice (it would be handed to two owners), and an RPC that follows on the same transcoder
// (pool modelled as LIFO, i.e. immediate reuse) is not disturbed by objects still in use.
func hC14Pool() {
	cfg, ok := pickAdapterCfg()
	if !ok {
		return
	}
	if pipeIsPassThrough(cfg) {
		return
	}
	cfg.maxMsg = 64
	p := newPipe(cfg)
	if !p.buildOK {
		return
	}
	target, _, _ := refNegotiate(cfg)
	unaryKind := cfg.kind == fkUnary
	targetEnveloped := target == ProtocolGRPC || target == ProtocolGRPCWeb || (target == ProtocolConnect && !unaryKind)
	p.backend.closeBody = verifChoose("handlerClosesBody", 2) == 1
	scenario := verifChoose("scenario", 9)
	if scenario == 7 {
		// (see case 7 below) needs a streaming client whose compressed JSON messages are re-encoded
		if !clientEnveloped(cfg.client) || cfg.kind != fkBidi {
			return
		}
		cfg.clientCodec, cfg.svcCodecs, cfg.clientComp = CodecJSON, []string{CodecProto}, true
		p = newPipe(cfg)
		if !p.buildOK {
			return
		}
		p.backend.closeBody = false
	}
	reqMsgs := []wireMsg{{abstract: nondetBytes("req", 1), compressed: cfg.clientComp}}
	p.backend.script = &respScript{msgs: []wireMsg{{abstract: nondetBytes("resp", 1)}}}
	p.req = buildClientRequest(cfg, reqMsgs, p.body)
	switch scenario {
	case 0: // plain success
	case 1: // backend error after a message
		p.backend.script.errCode, p.backend.script.errMsg, p.backend.script.errAfter = 13, "x", 1
		if !targetEnveloped {
			p.backend.script.errAfter = 0
		}
	case 2: // request truncated
		if len(p.body.data) > 1 {
			p.body.data = p.body.data[:len(p.body.data)-1]
		}
	case 3: // request over the limit
		p.req = buildClientRequest(cfg, []wireMsg{{abstract: bytes.Repeat([]byte{'z'}, 70), compressed: cfg.clientComp}}, p.body)
	case 4: // corrupt compressed request payload / undecodable payload
		if clientEnveloped(cfg.client) {
			p.body.data = appendFrame(nil, 1, []byte{9, 9})
		} else {
			p.body.data = []byte{9, 9}
		}
	case 7: // second message of a stream decompresses but does not decode; the handler reads again after the error
		p.body.data = appendFrame(p.body.data[:0], 1, refToyCompress(refToyEncode(true, []byte{'a'})))
		p.body.data = appendFrame(p.body.data, 1, refToyCompress([]byte("xx")))
		afterError := -1
		p.tr.methods[pipePath].handler = http.HandlerFunc(func(w http.ResponseWriter, r *http.Request) {
			buf := make([]byte, 64)
			var err error
			for i := 0; i < 50 && err == nil; i++ {
				_, err = r.Body.Read(buf)
			}
			// meanwhile another RPC is handed what is in the pool and fills it
			for i := 0; i < 4; i++ {
				x := p.tr.bufferPool.Pool.Get()
				if x == nil {
					break
				}
				b := x.(*bytes.Buffer)
				b.Reset()
				b.WriteString("SOMEONE-ELSES-DATA")
			}
			afterError, _ = r.Body.Read(buf)
		})
		defer func() {
			verifObsInt("bytes-read-after-error", int64(afterError))
			verifAssert(afterError <= 0, "C14: after a request body reported an error, further reads hand out nothing (no pooled buffer is read)")
		}()
	case 8: // the backend ends with a complete end-of-stream frame whose content is malformed (optionally after a message)
		if target != ProtocolGRPCWeb && !(target == ProtocolConnect && !unaryKind) {
			return
		}
		withMsg := verifChoose("messageBeforeEnd", 2) == 1
		p.tr.methods[pipePath].handler = http.HandlerFunc(func(w http.ResponseWriter, r *http.Request) {
			readAllSized(r.Body, 4, 100)
			if p.backend.closeBody {
				r.Body.Close()
			}
			w.Header().Set("Content-Type", p.backendContentType())
			if withMsg {
				w.Write(appendFrame(nil, 0, encodeMsg(p.backend.codec, wireMsg{abstract: []byte{'w'}})))
			}
			if target == ProtocolGRPCWeb {
				w.Write(appendFrame(nil, 0x80, []byte("no colon in this trailer line\r\n")))
			} else {
				w.Write(appendFrame(nil, 2, []byte("{not json")))
			}
			p.backend.at(3)
		})
	case 6: // a backend without envelopes writes a complete message and then more data that exceeds the limit
		if targetEnveloped {
			return
		}
		whole := encodeMsg(p.backend.codec, wireMsg{abstract: []byte{'w'}})
		p.tr.methods[pipePath].handler = http.HandlerFunc(func(w http.ResponseWriter, r *http.Request) {
			readAllSized(r.Body, 4, 100)
			if p.backend.closeBody {
				r.Body.Close()
			}
			w.Header().Set("Content-Type", p.backendContentType())
			w.Write(whole)
			w.Write(bytes.Repeat([]byte{'z'}, 70))
			p.backend.at(3)
		})
	default: // backend writes a malformed frame and then more data
		p.tr.methods[pipePath].handler = http.HandlerFunc(func(w http.ResponseWriter, r *http.Request) {
			readAllSized(r.Body, 4, 100)
			w.Header().Set("Content-Type", p.backendContentType())
			w.Write([]byte{7, 0, 0, 0, 1, 'x'})
			w.Write([]byte{0, 0, 0, 0, 0})
		})
	}
	// "another RPC" takes every buffer that is in the pool when the handler is about to return and keeps it:
	// whatever the transcoder released by then must not be touched by it any more
	var taken []*bytes.Buffer
	takenTwice := false
	p.backend.hook = func(point int) {
		if point != 3 {
			return
		}
		for i := 0; i < 4; i++ {
			x := p.tr.bufferPool.Pool.Get()
			if x == nil {
				break
			}
			b := x.(*bytes.Buffer)
			for _, t := range taken {
				if t == b {
					takenTwice = true // released twice: the pool hands the same buffer to two owners
				}
			}
			b.Reset()
			b.WriteString("MARK")
			taken = append(taken, b)
		}
	}
	func() {
		defer func() { recover() }()
		p.tr.ServeHTTP(p.sink, p.req)
	}()
	verifReach("served")
	for _, b := range taken {
		verifObsStr("taken-buffer", b.String())
		verifAssert(b.String() == "MARK", "C14: a buffer released to the pool is not written by its previous owner any more")
	}
	p.backend.hook = nil
	verifAssert(!takenTwice && poolsSound(p.tr, taken...), "C14: no pooled object is owned twice after the RPC")

	// a follow-up RPC on the same transcoder behaves like on a fresh one
	fresh := newPipe(cfg)
	msgs := []wireMsg{{abstract: []byte{'m'}, compressed: cfg.clientComp}}
	resp := []wireMsg{{abstract: []byte{'n'}}}
	want := runProbe(fresh, cfg, msgs, resp, false)
	p.tr.methods[pipePath].handler = p.backend
	got := runProbe(p, cfg, msgs, resp, false)
	verifAssert(want.calls == got.calls && bytesEq(want.body, got.body) && want.status == got.status && bytesEq(want.out, got.out),
		"C14: a following RPC is not disturbed by pooled objects of the previous one")
	verifAssert(poolsSound(p.tr), "C14: no pooled object is owned twice after the follow-up RPC")
}

func (p *pipeRun) backendContentType() string {
	switch p.backend.target {
	case ProtocolGRPC:
		return "application/grpc+" + p.backend.codec
	case ProtocolGRPCWeb:
		return "application/grpc-web+" + p.backend.codec
	case ProtocolConnect:
		if p.backend.unary {
			return "application/" + p.backend.codec
		}
		return "application/connect+" + p.backend.codec
	}
	return "application/json"
}

// nestDispatch routes the outermost invocation to backend a and any invocation made while a is running to b.
type nestDispatch struct {
	a, b  *pipeBackend
	depth int
}

func (d *nestDispatch) ServeHTTP(w http.ResponseWriter, r *http.Request) {
	d.depth++
	if d.depth == 1 {
		d.a.ServeHTTP(w, r)
	} else {
		d.b.ServeHTTP(w, r)
	}
	d.depth--
}

// hC14Nested: two RPCs in flight on one Transcoder. RPC B runs in its entirety at a chosen point of RPC A's
// handler (on entry, after A's handler has read only the start of its request, after its first response
// message, after its response but before the rest of the request is read): the interleavings of two RPCs in
// which B is atomic, at every handler-visible point of A. Each RPC's result equals its result alone on a
// fresh transcoder, also when B fails (corrupt payload) while A is active, and no pooled object ends up with
// two owners.
func hC14Nested() {
	cfg, ok := pickAdapterCfgNarrow()
	if !ok {
		return
	}
	if pipeIsPassThrough(cfg) {
		return
	}
	cfg.maxMsg = 64
	msgsA := []wireMsg{{abstract: nondetBytes("a", 1), compressed: cfg.clientComp}}
	readFirst := 0
	if cfg.kind == fkBidi {
		msgsA = append(msgsA, wireMsg{abstract: []byte{'A'}, compressed: cfg.clientComp})
		readFirst = 6
	}
	respA := []wireMsg{{abstract: nondetBytes("ra", 1)}}
	msgsB := []wireMsg{{abstract: nondetBytes("b", 1), compressed: cfg.clientComp}}
	respB := []wireMsg{{abstract: nondetBytes("rb", 1)}}
	closeBody := verifChoose("handlerClosesBody", 2) == 1
	bFails := verifChoose("bFails", 2) == 1
	at := verifChoose("interleaveAt", 4)

	// thorough: RPC B may use another client form than RPC A (mixed protocols on one Transcoder)
	cfgB := *cfg
	if verifTier() == 1 {
		alts := []int{cfGRPC, cfGRPCWeb, cfConnectStream}
		if cfg.kind == fkUnary {
			alts = append(alts, cfConnectUnary)
		}
		cfgB.client = alts[verifChoose("clientB", len(alts))]
	}
	buildB := func(body *fakeBody) *http.Request {
		req := buildClientRequest(&cfgB, msgsB, body)
		if bFails {
			if clientEnveloped(cfgB.client) {
				body.data = appendFrame(nil, 1, []byte{9, 9})
			} else {
				body.data = []byte{9, 9}
			}
		}
		return req
	}
	setup := func(b *pipeBackend) {
		b.closeBody = closeBody
		b.readFirst = readFirst
	}

	soloA := newPipe(cfg)
	if !soloA.buildOK {
		return
	}
	setup(soloA.backend)
	wantA := runProbe(soloA, cfg, msgsA, respA, false)

	soloB := newPipe(cfg)
	setup(soloB.backend)
	soloB.backend.script = &respScript{msgs: respB}
	soloB.req = buildB(soloB.body)
	soloB.tr.ServeHTTP(soloB.sink, soloB.req)
	wantB := probeResult{calls: soloB.backend.rec.calls, body: soloB.backend.rec.body, readErr: soloB.backend.rec.readErr != nil,
		status: soloB.sink.status, out: soloB.sink.body, hdr: soloB.sink.hdr}

	p := newPipe(cfg)
	setup(p.backend)
	backendB := &pipeBackend{target: p.backend.target, unary: p.backend.unary, codec: p.backend.codec, bufSize: p.backend.bufSize}
	setup(backendB)
	backendB.script = &respScript{msgs: respB}
	var gotB probeResult
	ranB := false
	p.backend.hook = func(point int) {
		if point != at || ranB {
			return
		}
		ranB = true
		sinkB, bodyB := newFakeSink(), &fakeBody{}
		p.tr.ServeHTTP(sinkB, buildB(bodyB))
		gotB = probeResult{calls: backendB.rec.calls, body: backendB.rec.body, readErr: backendB.rec.readErr != nil,
			status: sinkB.status, out: sinkB.body, hdr: sinkB.hdr}
	}
	p.tr.methods[pipePath].handler = &nestDispatch{a: p.backend, b: backendB}
	gotA := runProbe(p, cfg, msgsA, respA, false)

	verifObsBytes("A-backend-body", gotA.body)
	verifObsBytes("A-client-body", gotA.out)
	verifObsBytes("B-backend-body", gotB.body)
	verifObsBytes("B-client-body", gotB.out)
	if !ranB {
		verifReach("interleave-point-not-on-this-path")
		return
	}
	verifReach("two-rpcs-in-flight")
	verifAssert(wantA.calls == gotA.calls && bytesEq(wantA.body, gotA.body) && wantA.readErr == gotA.readErr,
		"C14: the request an RPC delivers is the same as if it ran alone")
	verifAssert(wantA.status == gotA.status && bytesEq(wantA.out, gotA.out) && headersEqual(wantA.hdr, gotA.hdr),
		"C14: the response of an RPC is the same as if it ran alone")
	verifAssert(wantB.calls == gotB.calls && bytesEq(wantB.body, gotB.body) && wantB.readErr == gotB.readErr,
		"C14: the request of the RPC running in between is the same as if it ran alone")
	verifAssert(wantB.status == gotB.status && bytesEq(wantB.out, gotB.out) && headersEqual(wantB.hdr, gotB.hdr),
		"C14: the response of the RPC running in between is the same as if it ran alone")
	verifAssert(poolsSound(p.tr), "C14: no pooled object is owned twice after two overlapping RPCs")
}

// hC14Alias: a REST client uploads a google.api.HttpBody (raw bytes, gzip-compressed, decompressing to more than
// a pooled buffer that only held the compressed form) to a REST backend of a service without compression: the
// bytes are decompressed, bound into the message and taken out of it again without any re-encoding. A second
// upload runs in its entirety when the first one's handler has been entered but has not read its body yet. Each
// backend must see exactly its own upload, and no two pooled buffers may end up over the same memory.
func hC14Alias() {
	svc := newFakeService(pipeSvc)
	svc.addMethodIn(pipeMethod, fkUnary, 0, false, fakeHTTPBodyDesc())
	backendA := &pipeBackend{target: ProtocolREST, unary: true, codec: CodecJSON, bufSize: 64}
	backendB := &pipeBackend{target: ProtocolREST, unary: true, codec: CodecJSON, bufSize: 64}
	closeBody := verifChoose("handlerClosesBody", 2) == 1
	backendA.closeBody, backendB.closeBody = closeBody, closeBody
	expand := []int{1, 3}[verifChoose("expand", 2)]
	fc := &fakeConfig{protocols: []Protocol{ProtocolREST}, codecs: []string{CodecJSON}, maxMsg: 8192, fieldsMode: true, expand: expand}
	rules := []*annotations.HttpRule{{Selector: pipeSvc + "." + pipeMethod, Pattern: &annotations.HttpRule_Post{Post: "/upload"}, Body: "*"}}
	tr, err := newFakeTranscoder(svc, &nestDispatch{a: backendA, b: backendB}, fc, rules, nil)
	verifAssert(err == nil, "HttpBody rule accepted")
	if err != nil {
		return
	}
	size := []int{3, 400}[verifChoose("size", 2)]
	mk := func(first byte, fill byte) []byte {
		b := make([]byte, size)
		for i := range b {
			b[i] = fill
		}
		b[0] = first
		return b
	}
	rawA := mk(verifNondetByte("a"), 'x')
	rawB := mk(verifNondetByte("b"), 'y')
	upload := func(raw []byte) int {
		req := &http.Request{Method: "POST", URL: &url.URL{Path: "/upload"}, Proto: "HTTP/1.1", ProtoMajor: 1, ProtoMinor: 1,
			Header: http.Header{"Content-Type": {"text/plain"}, "Content-Encoding": {"gzip"}}, Body: &fakeBody{data: refToyCompress(raw)}, ContentLength: -1}
		sink := newFakeSink()
		tr.ServeHTTP(sink, req)
		return sink.status
	}
	backendA.script = &respScript{msgs: []wireMsg{{}}}
	backendB.script = &respScript{msgs: []wireMsg{{}}}
	statusB := 0
	overlap := verifChoose("overlap", 2) == 1
	backendA.hook = func(point int) {
		if point == 0 && overlap {
			statusB = upload(rawB) // (nestDispatch routes this inner call to backendB)
		}
	}
	statusA := upload(rawA)
	if !overlap {
		tr.methods[pipePath].handler = backendB
		statusB = upload(rawB)
	}
	verifObsInt("status-a", int64(statusA))
	verifObsInt("status-b", int64(statusB))
	verifObsInt("a-bytes", int64(len(backendA.rec.body)))
	verifReach("two-uploads")
	if !overlap {
		verifAssert(backendB.rec.calls == 1 && statusB == 200 && bytesEq(backendB.rec.body, expandBytes(rawB, expand)), "C15: an upload served after an earlier one reaches its backend unchanged")
	}
	verifAssert(backendA.rec.calls == 1 && statusA == 200 && bytesEq(backendA.rec.body, expandBytes(rawA, expand)), "C14: the bytes of an upload reach its backend unchanged while another upload is served in between")
	verifAssert(backendB.rec.calls == 1 && statusB == 200 && bytesEq(backendB.rec.body, expandBytes(rawB, expand)), "C14: the upload served in between reaches its backend unchanged")
	verifAssert(poolsSound(tr), "C14: no two pooled buffers share memory after the uploads")
}

// hC14CloseDuringRead: a handler with two goroutines - one blocked in Read of the request body (the transcoder
// is waiting for more client bytes in the middle of a message), the other one calling Close on that body.
// Sequential model of that schedule: at the moment the client's body is being read mid-message, Close is
// attempted; if the reader's lock is free it runs there and then (otherwise it has to wait and runs after the
// Read). Whatever Close released then goes to "another RPC" (every pooled buffer is taken and marked) before the
// blocked Read continues. Nothing released may be written afterwards.
func hC14CloseDuringRead() {
	cfg := &pipeCfg{maxMsg: 64, kind: fkBidi, clientCodec: CodecJSON, svcCodecs: []string{CodecProto}}
	cfg.client = verifChoose("client", 3) // gRPC, gRPC-Web, Connect streaming
	if cfg.client == 2 {
		cfg.client = cfConnectStream
	}
	cfg.svcProtos = []Protocol{pipeProtocols[verifChoose("target", 3)]}
	if verifChoose("sameCodec", 2) == 1 {
		cfg.svcCodecs = []string{CodecJSON} // pure re-framing reader instead of the re-encoding one
	}
	if pipeIsPassThrough(cfg) {
		return
	}
	p := newPipe(cfg)
	if !p.buildOK {
		return
	}
	p.req = buildClientRequest(cfg, []wireMsg{{abstract: []byte("abc")}, {abstract: []byte("de")}}, p.body)
	p.body.chunk = 2
	var taken []*bytes.Buffer
	closedMidRead := false
	p.tr.methods[pipePath].handler = http.HandlerFunc(func(w http.ResponseWriter, r *http.Request) {
		tryClose := func() {
			if closedMidRead || p.body.pos < 6 { // (inside the first message: envelope and one payload byte consumed)
				return
			}
			free := false
			switch rd := r.Body.(type) {
			case *transformingReader:
				if free = rd.mu.TryLock(); free {
					rd.mu.Unlock()
				}
			case *envelopingReader:
				if free = rd.mu.TryLock(); free {
					rd.mu.Unlock()
				}
			}
			if !free {
				return // the other goroutine's Close waits for this Read
			}
			closedMidRead = true
			r.Body.Close()
			for i := 0; i < 4; i++ {
				x := p.tr.bufferPool.Pool.Get()
				if x == nil {
					break
				}
				b := x.(*bytes.Buffer)
				b.Reset()
				b.WriteString("TAKEN-")
				b.WriteByte(byte('0' + i))
				taken = append(taken, b)
			}
		}
		p.body.onRead = tryClose
		readAllSized(r.Body, 16, 100)
		p.body.onRead = nil
		r.Body.Close()
	})
	p.tr.ServeHTTP(p.sink, p.req)
	verifObsBool("closed-mid-read", closedMidRead)
	verifReach("reader-and-closer")
	for i, b := range taken {
		want := "TAKEN-" + string([]byte{byte('0' + i)})
		verifAssert(b.String() == want, "C14: a buffer released by Close is not filled by a Read that was still in progress")
	}
	verifAssert(poolsSound(p.tr), "C14: no pooled object is owned twice after a Close that raced a Read")
}
