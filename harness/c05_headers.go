package vanguard

import (
	"net/http"
	"strings"
)

func headerHas(h http.Header, key string, want []string) bool {
	got, ok := h[key]
	if !ok || len(got) != len(want) {
		return false
	}
	eq := true
	for i := range got {
		eq = eq && got[i] == want[i]
	}
	return eq
}

func visibleASCII(b byte) bool {
	return b > ' ' && b <= '~' && b != ',' && b != '"' && b != '\\' && b != '<' && b != '>' && b != '&' && b != '%'
}

func alnum(b byte) bool {
	return (b >= 'a' && b <= 'z') || (b >= 'A' && b <= 'Z') || (b >= '0' && b <= '9')
}

// appHeaderName: an application header name with a symbolic character, under prefixes that sit next to
// protocol control headers without being one (Content-Type/-Encoding/-Length, Accept-Encoding, ... are
// control headers; "Content-?q", "Accept-?q", "?q" are not). Canonical form, as net/http delivers keys.
func appHeaderName(tag string) string {
	pfx := []string{"X-", "Content-", "Accept-", ""}[verifChoose(tag+".prefix", 4)]
	c := verifNondetByte(tag + ".char")
	verifAssume(alnum(c))
	return http.CanonicalHeaderKey(pfx + string([]byte{c}) + "q")
}

// hC05Req: application request headers reach the backend with the same names and (multi-)values.
func hC05Req() {
	cfg, ok := pickAdapterCfg()
	if !ok {
		return
	}
	p := newPipe(cfg)
	if !p.buildOK {
		return
	}
	p.backend.script = &respScript{msgs: []wireMsg{{abstract: []byte{'r'}}}}
	p.req = buildClientRequest(cfg, []wireMsg{{abstract: []byte{'q'}}}, p.body)
	v := nondetBytes("value", 2)
	verifAssume(visibleASCII(v[0]) && visibleASCII(v[1]))
	multi := []string{string(v), "second", string(v[:1])}
	p.req.Header["X-App-Multi"] = multi
	p.req.Header["X-Data-Bin"] = []string{"AAEC/w=="}
	p.req.Header["Authorization"] = []string{"Bearer " + string(v)}
	p.req.Header["User-Agent"] = []string{"ua/1"}
	symName := appHeaderName("hname")
	p.req.Header[symName] = []string{string(v[1:])}
	p.tr.ServeHTTP(p.sink, p.req)
	rec := &p.backend.rec
	if rec.calls == 0 {
		verifReach("rejected")
		return
	}
	verifReach("dispatched")
	verifObsStr("x-app-multi", strings.Join(rec.header["X-App-Multi"], "|"))
	verifAssert(headerHas(rec.header, "X-App-Multi", multi), "C05: multi-valued application header reaches the backend unchanged")
	verifAssert(headerHas(rec.header, "X-Data-Bin", []string{"AAEC/w=="}), "C05: -bin header reaches the backend unchanged")
	verifAssert(headerHas(rec.header, "Authorization", []string{"Bearer " + string(v)}), "C05: Authorization reaches the backend unchanged")
	verifAssert(headerHas(rec.header, "User-Agent", []string{"ua/1"}), "C05: User-Agent reaches the backend unchanged")
	verifAssert(headerHas(rec.header, symName, []string{string(v[1:])}), "C05: an application header with an arbitrary name reaches the backend unchanged")
}

func isStatusKey(k string) bool {
	k = http.CanonicalHeaderKey(k)
	return k == "Grpc-Status" || k == "Grpc-Message" || k == "Grpc-Status-Details-Bin"
}

// hC05Resp: response headers and trailers set by the handler reach the client, trailers at the
// position the client's protocol defines; protocol status keys never appear as application metadata.
func hC05Resp() {
	// thorough: either the wide configuration space with the fixed name pairs, or the adapter family with a
	// symbolic header / trailer name
	symbolicNames := verifTier() == 1 && verifChoose("slice", 2) == 1
	var cfg *pipeCfg
	var ok bool
	if symbolicNames {
		cfg, ok = pickAdapterCfgNarrow()
	} else {
		cfg, ok = pickAdapterCfg()
	}
	if !ok {
		return
	}
	if pipeIsPassThrough(cfg) {
		return
	}
	p := newPipe(cfg)
	if !p.buildOK {
		return
	}
	target, _, _ := refNegotiate(cfg)
	unaryKind := cfg.kind == fkUnary
	if target == ProtocolREST {
		return // REST backends have no trailers; headers are covered by the other targets
	}
	v := nondetBytes("value", 2)
	verifAssume(visibleASCII(v[0]) && visibleASCII(v[1]) && v[0] != ':' && v[1] != ':')
	tvals := []string{string(v), "t2"}
	script := &respScript{msgs: []wireMsg{{abstract: []byte{'r'}}}}
	script.respHdrs = http.Header{"X-Resp": {string(v[:1]), "h2"}, "X-Resp-Bin": {"AAEC"}}
	script.trailerHdrs = http.Header{"X-Trail": tvals, "X-Trail-Bin": {"/w=="}}
	// names next to control headers: quick picks from four fixed pairs, thorough makes one of the two symbolic
	pair := [4][2]string{{"Content-Zq", "Zq"}, {"Zq", "Accept-Zq"}, {"Accept-9q", "Content-9q"}, {"X-Zq", "X-9q"}}[verifChoose("names", 4)]
	symHdr, symTrl := pair[0], pair[1]
	if symbolicNames {
		if verifChoose("symbolicName", 2) == 0 {
			symHdr = appHeaderName("rname")
		} else {
			symTrl = appHeaderName("tname")
		}
	}
	if symHdr == symTrl {
		return // one name as header and trailer at once: where it ends up is not defined
	}
	script.respHdrs[symHdr] = []string{"hv"}
	script.trailerHdrs[symTrl] = []string{"tv"}
	if target == ProtocolGRPC {
		switch verifChoose("announce", 4) {
		case 1:
			script.announce = true
		case 2:
			script.announce, script.announceLow = true, true // names declared in lower case
		case 3:
			script.announce, script.announceLine = true, true // one "A, B, C" line
		}
	}
	isErr := verifChoose("error", 2) == 1
	if isErr {
		script.errCode, script.errMsg = 5, "nf"
		if verifChoose("details", 2) == 1 {
			script.details = []refDetail{{typ: "p.D", val: []byte{'v'}}}
		}
		script.errAfter = verifChoose("errAfter", 2)
		if !(target == ProtocolGRPC || target == ProtocolGRPCWeb || (target == ProtocolConnect && !unaryKind)) {
			script.errAfter = 0
		}
		if (target == ProtocolGRPC || target == ProtocolGRPCWeb) && script.errAfter == 0 {
			script.trailersOnly = verifChoose("trailersOnly", 2) == 1
		}
	}
	statusKeyInMetadata := false
	if target == ProtocolConnect && !unaryKind && isErr && (cfg.client == cfGRPC || cfg.client == cfGRPCWeb) && verifChoose("statusKeyInMetadata", 2) == 1 {
		// a Connect streaming backend whose end-of-stream metadata uses the name of another protocol's status key
		statusKeyInMetadata = true
		script.trailerHdrs["grpc-status"] = []string{"0"}
	}
	p.backend.script = script
	p.serve([]wireMsg{{abstract: []byte{'q'}}})
	if target == ProtocolConnect && unaryKind && p.backend.rec.method == "GET" {
		verifOutside("Connect GET towards the backend is decided in C19")
	}
	if statusKeyInMetadata && cfg.client == cfGRPC {
		verifReach("status-key-in-metadata")
		n := 0
		for k, vs := range p.sink.trailers() {
			if http.CanonicalHeaderKey(k) == "Grpc-Status" {
				n += len(vs)
			}
		}
		for k, vs := range p.sink.headSnap {
			if http.CanonicalHeaderKey(k) == "Grpc-Status" {
				n += len(vs)
			}
		}
		verifAssert(n == 1, "C05: backend metadata named like a status key does not become a second status for a gRPC client")
	}
	out := refParseClientResponse(cfg, p.sink, p.backend.rec.calls > 0)
	verifObsInt("status", int64(p.sink.status))
	verifObsInt("client-code", int64(out.code))
	if p.backend.rec.calls == 0 {
		verifReach("rejected")
		return
	}
	verifReach("responded")
	verifAssert(out.valid, "C05: response valid for the client's protocol")
	if !out.valid {
		return
	}
	verifAssert((out.code != 0) == isErr, "C05: outcome kind preserved")
	head := p.sink.headSnap
	verifAssert(headerHas(head, "X-Resp", []string{string(v[:1]), "h2"}), "C05: multi-valued response header reaches the client")
	verifAssert(headerHas(head, "X-Resp-Bin", []string{"AAEC"}), "C05: -bin response header reaches the client")
	verifAssert(headerHas(head, symHdr, []string{"hv"}), "C05: a response header with an arbitrary name reaches the client")
	if cfg.client == cfREST {
		verifReach("rest-client-headers-only")
		return // the property defines trailer positions for the RPC client forms only
	}
	// trailers at the client's position
	tr := out.trailer
	verifObsStr("x-trail", strings.Join(tr["X-Trail"], "|"))
	if script.trailersOnly {
		// a trailers-only gRPC response has one block: its metadata may arrive as headers or as trailers
		verifReach("trailers-only-metadata")
		verifAssert(headerHas(tr, "X-Trail", tvals) || headerHas(head, "X-Trail", tvals), "C05: trailers-only metadata reaches the client")
	} else {
		verifAssert(headerHas(tr, "X-Trail", tvals), "C05: multi-valued trailer delivered at the position the client's protocol defines")
		verifAssert(headerHas(tr, "X-Trail-Bin", []string{"/w=="}), "C05: -bin trailer delivered at the position the client's protocol defines")
		verifAssert(headerHas(tr, symTrl, []string{"tv"}), "C05: a trailer with an arbitrary name is delivered at the position the client's protocol defines")
	}
	// status keys never leak into application metadata
	if cfg.client == cfConnectStream || cfg.client == cfConnectUnary || cfg.client == cfConnectGet || cfg.client == cfREST {
		for k := range tr {
			verifAssert(!isStatusKey(k), "C05: protocol status keys never appear as application trailers")
		}
		for k := range head {
			verifAssert(!isStatusKey(k) && !isStatusKey(strings.TrimPrefix(k, "Trailer-")), "C05: protocol status keys never appear as application headers")
		}
	}
	if cfg.client == cfGRPC {
		// trailers must not also be delivered as plain headers
		_, inHead := head["X-Trail"]
		_, trailersOnlyResp := head["Grpc-Status"]
		verifAssert(!inHead || trailersOnlyResp, "C05: trailers are not duplicated into the header block")
	}
}
