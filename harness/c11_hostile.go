package vanguard

import (
	"net/http"
	"net/url"
	"strconv"
)

var hostileContentTypes = []string{"application/grpc", "application/grpc+", "application/grpc-web+", "application/connect+", "application/", "text/", ""}

// hC11Hostile: arbitrary client input and arbitrary backend behaviour never crash ServeHTTP, produce at
// most one response head with a legal status, and a body that agrees with any Content-Length sent.
// vary reports whether dimension d varies on this path: thorough varies everything, quick one aspect group at a time.
func c11vary(aspect, d int) bool { return verifTier() == 1 || aspect == d }

func c11choose(aspect, d int, name string, n int) int {
	if c11vary(aspect, d) {
		return verifChoose(name, n)
	}
	return 0
}

func hC11Hostile() {
	aspect := 0
	if verifTier() == 0 {
		aspect = verifChoose("aspect", 11)
	}
	cfg := &pipeCfg{maxMsg: 64, clientCodec: CodecProto} // above every length the symbolic bytes can state (limits: C10)
	cfg.svcProtos = []Protocol{pipeProtocols[verifChoose("target", 4)]}
	svcCodec := 0
	if c11vary(aspect, 0) || c11vary(aspect, 4) { // (backend behaviours meet both the re-encoding and the re-framing writer)
		svcCodec = verifChoose("svcCodec", 2)
	}
	cfg.svcCodecs = []string{[]string{CodecJSON, CodecProto}[svcCodec]}
	cfg.svcComp = c11choose(aspect, 0, "svcComp", 2) == 1
	cfg.kind = []int{fkUnary, fkBidi}[verifChoose("kind", 2)]
	if cfg.svcProtos[0] == ProtocolREST {
		cfg.kind = fkUnary
	}
	cfg.idem, cfg.hasIdem = 1, true
	p := newPipe(cfg)
	if !p.buildOK {
		return
	}
	// ---- hostile backend ----
	status := 200
	if c11vary(aspect, 1) {
		status = int(int16(verifNondetUint32("status")))
	}
	bodyLen := 0
	if c11vary(aspect, 2) || c11vary(aspect, 3) {
		bodyLen = verifChoose("respLen", 7)
	}
	respBody := nondetBytes("resp", bodyLen)
	if bodyLen >= 5 { // keep frame-like responses enumerable: high length bytes zero, low one small
		verifAssume(respBody[1] == 0 && respBody[2] == 0 && respBody[3] == 0 && respBody[4] < 8)
	}
	respCT := []string{"application/grpc+proto", "application/grpc-web+proto", "application/connect+proto", "application/proto", "application/json", "text/plain", ""}[c11choose(aspect, 2, "respCT", 7)]
	grpcStatus := ""
	if c11choose(aspect, 1, "grpcStatusHdr", 2) == 1 {
		grpcStatus = string(nondetBytes("grpcStatus", 2))
	}
	clMode := c11choose(aspect, 3, "respContentLength", 4) // absent, exact, symbolic digit, garbage
	behaviour := 2
	if c11vary(aspect, 4) {
		behaviour = verifChoose("behaviour", 7)
	}
	passedThrough := false
	p.tr.methods[pipePath].handler = http.HandlerFunc(func(w http.ResponseWriter, r *http.Request) {
		if _, direct := w.(*fakeSink); direct {
			passedThrough = true // no conversion: the handler talks to the client directly (C13)
		}
		buf := make([]byte, 3)
		r.Body.Read(buf)
		if behaviour == 0 {
			return // early return, nothing written
		}
		h := w.Header()
		if respCT != "" {
			h.Set("Content-Type", respCT)
		}
		if grpcStatus != "" {
			h.Set("Grpc-Status", grpcStatus)
		}
		switch clMode {
		case 1:
			h.Set("Content-Length", strconv.Itoa(len(respBody)))
		case 2:
			h.Set("Content-Length", string([]byte{verifNondetByte("clDigit")}))
		case 3:
			h.Set("Content-Length", "-1")
		}
		if behaviour == 5 {
			// a complete, valid response for the target protocol followed by stray bytes in the same Write
			h.Set("Content-Type", p.backendContentType())
			h.Del("Content-Length")
			w.WriteHeader(200)
			var end []byte
			switch p.backend.target {
			case ProtocolGRPCWeb:
				end = appendFrame(nil, 0x80, []byte("grpc-status: 0\r\n"))
			case ProtocolConnect:
				if !p.backend.unary {
					end = appendFrame(nil, 2, []byte("{}"))
				}
			}
			w.Write(append(end, nondetBytes("stray", verifChoose("strayLen", 2)+1)...))
			return
		}
		if behaviour == 6 {
			// a failing backend whose trailer metadata carries the name of a framing header
			h.Set("Content-Type", p.backendContentType())
			h.Del("Content-Length")
			switch {
			case p.backend.target == ProtocolGRPC || p.backend.target == ProtocolGRPCWeb:
				h.Set("Grpc-Status", "5") // trailers-only
				h.Set(http.TrailerPrefix+"Content-Length", "9")
				w.WriteHeader(200)
			case p.backend.target == ProtocolConnect && p.backend.unary:
				h.Set("Content-Type", "application/json")
				h.Set("Trailer-Content-Length", "9")
				w.WriteHeader(404)
				w.Write([]byte(`{"code":"not_found"}`))
			default:
				h.Set(http.TrailerPrefix+"Content-Length", "9")
				w.WriteHeader(200)
			}
			return
		}
		if behaviour != 1 {
			w.WriteHeader(status)
		}
		if len(respBody) > 2 {
			w.Write(respBody[:2])
			w.Write(respBody[2:])
		} else {
			w.Write(respBody)
		}
		if behaviour == 3 {
			w.WriteHeader(500) // second head
			w.Write([]byte{1, 2, 3})
			if f, ok := w.(http.Flusher); ok {
				f.Flush()
			}
		}
		if behaviour == 4 {
			h.Set(http.TrailerPrefix+"Grpc-Status", string(nondetBytes("trailerStatus", 1)))
			r.Body.Close()
			r.Body.Read(buf) // read after close
		}
	})
	// ---- hostile client ----
	method := "POST"
	path := pipePath
	query := ""
	ct := "application/grpc"
	if c11vary(aspect, 5) { // any 3-byte method
		method = string(nondetBytes("method", 3))
	}
	if c11vary(aspect, 9) { // path variants
		path = []string{pipePath, pipeRESTPath, "/", "/pkg.Svc/"}[verifChoose("path", 4)] + string(nondetBytesUpTo("pathTail", 1))
	}
	if c11vary(aspect, 10) { // query variants (GET without a content-type: Connect GET / REST territory)
		method = []string{"GET", "POST"}[verifChoose("qMethod", 2)]
		ct = []string{"", "application/json"}[verifChoose("qCT", 2)]
		query = []string{"", "connect=v1&encoding=proto&message=", "connect=v1&base64=2", "a=b"}[verifChoose("query", 4)] + string(nondetBytesUpTo("queryTail", 2))
	}
	if c11vary(aspect, 6) {
		ct = hostileContentTypes[verifChoose("ct", len(hostileContentTypes))]
		if ct != "" {
			ct += string(nondetBytesUpTo("ctTail", 2))
		}
	}
	hdr := http.Header{}
	if ct != "" {
		hdr["Content-Type"] = []string{ct}
	}
	corruptCompressed := false
	switch c11choose(aspect, 7, "ctrl", 7) {
	case 6: // declared gzip, frame flagged compressed, payload bytes arbitrary (mostly corrupt)
		hdr.Set("Grpc-Encoding", "gzip")
		corruptCompressed = true
	case 1:
		hdr.Set("Grpc-Encoding", string(nondetBytes("enc", 1)))
	case 2:
		hdr.Set("Content-Encoding", "gzip")
	case 3:
		hdr.Set("Grpc-Timeout", string(nondetBytes("timeout", 2)))
	case 4:
		hdr.Set("Connect-Protocol-Version", string(nondetBytes("cpv", 1)))
	case 5:
		hdr.Set("Connect-Timeout-Ms", string(nondetBytes("ctimeout", 2)))
	}
	n := 5
	if c11vary(aspect, 8) || c11vary(aspect, 2) {
		n = verifChoose("bodyLen", 7)
	}
	body := nondetBytes("body", n)
	if n >= 5 {
		verifAssume(body[1] == 0 && body[2] == 0 && body[3] == 0 && body[4] < 12)
	}
	if corruptCompressed {
		body = append([]byte{1, 0, 0, 0, 2}, nondetBytes("compressedPayload", 2)...)
	}
	major := 2 - c11choose(aspect, 6, "protoMajor", 2)
	req := &http.Request{Method: method, URL: &url.URL{Path: path, RawQuery: query}, Proto: "HTTP/x", ProtoMajor: major, Header: hdr,
		Body: &fakeBody{data: body, failEnd: c11choose(aspect, 8, "transportError", 2) == 1}, ContentLength: -1}
	if c11choose(aspect, 8, "declared", 2) == 1 {
		req.ContentLength = int64(verifChoose("declaredLen", 10))
	}
	if wf := c11choose(aspect, 4, "sinkFails", 3); wf > 0 {
		p.sink.writeErrAt = wf - 1
	}
	p.tr.ServeHTTP(p.sink, req)
	verifObsInt("heads", int64(p.sink.heads))
	verifObsInt("status", int64(p.sink.status))
	verifReach("returned")
	if passedThrough {
		verifReach("passed-through")
		return
	}
	verifAssert(p.sink.heads <= 1, "C11: at most one response head")
	if p.sink.heads == 1 {
		verifAssert(p.sink.status >= 100 && p.sink.status <= 999, "C11: the response status is one net/http can send")
		if cl := p.sink.headSnap.Get("Content-Length"); cl != "" && p.sink.writeErrAt < 0 {
			// (net/http itself drops a Content-Length that is not a non-negative integer)
			if nn, ok := refParseUint(cl); ok {
				verifAssert(int(nn) == len(p.sink.body), "C11: Content-Length, when sent, equals the body written")
			}
		}
	}
}
