package vanguard

import (
	"errors"

	"connectrpc.com/connect"
)

// Shared helpers for harnesses (compiled both for the engine and natively).

// nondetBytes returns n symbolic bytes named name.
func nondetBytes(name string, n int) []byte {
	b := make([]byte, n)
	for i := range b {
		b[i] = verifNondetByte(name)
	}
	return b
}

// nondetLen picks a length 0..max (forked) and returns that many symbolic bytes.
func nondetBytesUpTo(name string, max int) []byte {
	n := verifChoose(name+".len", max+1)
	return nondetBytes(name, n)
}

func bytesEq(a, b []byte) bool {
	if len(a) != len(b) {
		return false
	}
	eq := true
	for i := range a {
		eq = eq && a[i] == b[i]
	}
	return eq
}

func connectCodeU32(c connect.Code) uint32 { return uint32(c) }

// connect_code returns the connect code carried by err (0 if none).
func connect_code(err error) uint32 {
	var ce *connect.Error
	if errors.As(err, &ce) {
		return uint32(ce.Code())
	}
	return 0
}

func verifConcretize64(x int64) int64 { return int64(verifConcretize(int(x))) }
