package vanguard

import (
	"google.golang.org/protobuf/reflect/protoreflect"
	"net/http"

	"google.golang.org/genproto/googleapis/api/annotations"
)

func nopHandler() http.Handler {
	return http.HandlerFunc(func(http.ResponseWriter, *http.Request) {})
}

func baseFakeConfig() *fakeConfig {
	return &fakeConfig{protocols: []Protocol{ProtocolGRPC}, codecs: []string{CodecProto}, maxMsg: 16}
}

// hC17Selector: a WithRules selector binds exactly the methods it names: an exact full method name, or a
// '*'-terminated prefix ending at a '.' boundary; anything else that names no method is an error.
func hC17Selector() {
	svcS := newFakeService("p.S")
	get := svcS.addMethod("Get", fkUnary, 0, false)
	book := svcS.addMethod("GetBook", fkUnary, 0, false)
	svcT := newFakeService("p.T")
	list := svcT.addMethod("List", fkUnary, 0, false)
	names := []string{"p.S.Get", "p.S.GetBook", "p.T.List"}
	// selector: a concrete stem + up to 2 symbolic bytes + optional concrete suffix
	stem := []string{"p.S.Get", "p.S.", "p.T.", "p.T", "p."}[verifChoose("stem", 5)]
	sel := stem + string(nondetBytesUpTo("tail", 2))
	rule := &annotations.HttpRule{Selector: sel, Pattern: &annotations.HttpRule_Get{Get: "/x/{name}"}}
	mk := func(s *fakeService) *Service {
		return &Service{schema: s, handler: nopHandler(), opts: []ServiceOption{WithTypeResolver(&fakeResolver{}), WithTargetProtocols(ProtocolGRPC), WithTargetCodecs(CodecProto)}}
	}
	cfg := baseFakeConfig()
	tr, err := NewTranscoder([]*Service{mk(svcS), mk(svcT)}, toyCodecOption(CodecProto, false, cfg), toyCodecOption(CodecJSON, true, cfg), WithRules(rule))
	// reference
	var want []string
	hasStar := false
	for i := 0; i < len(sel); i++ {
		hasStar = hasStar || sel[i] == '*'
	}
	valid := true
	if hasStar {
		if sel[len(sel)-1] != '*' {
			valid = false
		} else {
			prefix := sel[:len(sel)-1]
			for i := 0; i < len(prefix); i++ {
				valid = valid && prefix[i] != '*'
			}
			if len(prefix) > 0 && prefix[len(prefix)-1] != '.' {
				valid = false
			}
			if valid {
				for _, n := range names {
					if len(n) >= len(prefix) && n[:len(prefix)] == prefix {
						want = append(want, n)
					}
				}
			}
		}
	} else {
		for _, n := range names {
			if n == sel {
				want = append(want, n)
			}
		}
	}
	verifObsBool("accepted", err == nil)
	if !valid || len(want) == 0 {
		verifReach("selector-names-nothing")
		verifAssert(err != nil, "C17: a selector that names no method (or misplaces '*') is rejected")
		return
	}
	if len(want) > 1 {
		verifReach("selector-names-several")
		return // the same template bound to several methods conflicts; not asserted here
	}
	verifReach("selector-names-one")
	verifAssert(err == nil, "C17: a selector naming exactly one method is accepted")
	if err != nil {
		return
	}
	bound := func(m *fakeMethod) bool { return tr.methods[methodPath(m)].httpRule != nil }
	verifAssert(bound(get) == (want[0] == "p.S.Get") && bound(book) == (want[0] == "p.S.GetBook") && bound(list) == (want[0] == "p.T.List"),
		"C17: the rule is bound to exactly the method the selector names")
}

// ---- template grammar ---------------------------------------------------------------------------

// refTemplate is a recursive-descent recogniser of the google.api.http path template grammar:
//
//	Template = "/" Segments [ ":" LITERAL ] ;  Segments = Segment { "/" Segment } ;
//	Segment  = "*" | "**" | LITERAL | "{" FieldPath [ "=" Segments ] "}" ;  FieldPath = IDENT { "." IDENT }
//
// plus the documented restrictions: "**" only as the last segment, no nested variables, no duplicate
// variable. verdict: 1 accept, 0 reject, 2 grey (not asserted).
type refTpl struct {
	s      string
	pos    int
	seenDS bool
	grey   bool
	vars   []string
	nsegs  int
}

func (p *refTpl) peek() byte {
	if p.pos < len(p.s) {
		return p.s[p.pos]
	}
	return 0
}

func refIsIdentStart(c byte) bool {
	return (c >= 'a' && c <= 'z') || (c >= 'A' && c <= 'Z') || c == '_'
}
func refIsIdent(c byte) bool { return refIsIdentStart(c) || (c >= '0' && c <= '9') }
func refIsLiteralChar(c byte) bool {
	return refIsIdent(c) || c == '-' || c == '.' || c == '~'
}

func (p *refTpl) literal() bool {
	start := p.pos
	for p.pos < len(p.s) && refIsLiteralChar(p.s[p.pos]) {
		p.pos++
	}
	return p.pos > start
}

func (p *refTpl) segments(inVar bool) bool {
	for {
		if p.seenDS {
			return false // "**" must be the last segment
		}
		if !p.segment(inVar) {
			return false
		}
		if p.peek() != '/' {
			return true
		}
		p.pos++
	}
}

func (p *refTpl) segment(inVar bool) bool {
	switch c := p.peek(); {
	case c == '*':
		p.pos++
		if p.peek() == '*' {
			p.pos++
			p.seenDS = true
		}
		p.nsegs++
		return true
	case c == '{':
		if inVar {
			p.grey = true // nested variables: BNF allows, documentation forbids
			return false
		}
		p.pos++
		start := p.pos
		for {
			if !refIsIdentStart(p.peek()) {
				return false
			}
			for refIsIdent(p.peek()) {
				p.pos++
			}
			if p.peek() != '.' {
				break
			}
			p.pos++
		}
		name := p.s[start:p.pos]
		for _, v := range p.vars {
			if v == name {
				return false
			}
		}
		p.vars = append(p.vars, name)
		switch p.peek() {
		case '}':
			p.pos++
			p.nsegs++
			return true
		case '=':
			p.pos++
			if !p.segments(true) {
				return false
			}
			if p.peek() != '}' {
				return false
			}
			p.pos++
			return true
		}
		return false
	default:
		if p.literal() {
			p.nsegs++
			return true
		}
		return false
	}
}

func refTemplateVerdict(s string) int {
	p := &refTpl{s: s}
	if p.peek() != '/' {
		return 0
	}
	p.pos++
	ok := p.segments(false)
	if p.grey {
		return 2
	}
	if !ok {
		return 0
	}
	if p.peek() == ':' {
		p.pos++
		if !p.literal() {
			return 0
		}
	}
	if p.pos != len(p.s) {
		return 0
	}
	return 1
}

const tplAlphabet = "/a*{}=:.b"

// hC17Grammar: parsePathTemplate accepts exactly the templates of the grammar (all strings over a
// 9-symbol alphabet up to the bound).
func hC17Grammar() {
	max := 5
	if verifTier() == 1 {
		max = 7
	}
	n := verifChoose("len", max) + 1
	b := make([]byte, n)
	for i := range b {
		b[i] = tplAlphabet[verifChoose("sym", len(tplAlphabet))]
	}
	b[0] = '/'
	t := string(b)
	segs, vars, err := parsePathTemplate(t)
	verdict := refTemplateVerdict(t)
	verifObsBool("accepted", err == nil)
	switch verdict {
	case 2:
		verifReach("grey-nested-variable")
	case 1:
		verifReach("grammatical")
		verifAssert(err == nil, "C17: a template of the grammar is accepted")
		if err == nil {
			ref := &refTpl{s: t, pos: 1}
			ref.segments(false)
			verifAssert(len(segs.path) == ref.nsegs && len(vars) == len(ref.vars), "C17: accepted template has the segments and variables the grammar gives it")
		}
	default:
		verifReach("ungrammatical")
		verifAssert(err != nil, "C17: a string outside the grammar is rejected")
	}
}

// ---- validation matrix -------------------------------------------------------------------------------

// hC17Matrix: NewTranscoder refuses configurations it cannot serve and honours the ones it accepts.
func hC17Matrix() {
	svc := newFakeService("p.S")
	// request type: name, id (strings), tags (repeated string), sub (message with a string leaf and a repeated leaf)
	subDesc := newFakeMsgDesc("p.Sub", &fakeField{name: "leaf", kind: protoreflect.StringKind}, &fakeField{name: "items", kind: protoreflect.StringKind, repeated: true})
	reqDesc := newFakeMsgDesc("p.S.GetRequest", &fakeField{name: "name", kind: protoreflect.StringKind}, &fakeField{name: "id", kind: protoreflect.StringKind},
		&fakeField{name: "tags", kind: protoreflect.StringKind, repeated: true}, &fakeField{name: "sub", kind: protoreflect.MessageKind, msg: subDesc})
	m := svc.addMethodIn("Get", fkUnary, 0, false, reqDesc)
	m.out = newFakeMsgDesc("p.S.GetResponse", &fakeField{name: "result", kind: protoreflect.StringKind}, &fakeField{name: "sub", kind: protoreflect.MessageKind, msg: subDesc})
	cfg := baseFakeConfig()
	opts := []ServiceOption{WithTypeResolver(&fakeResolver{})}
	protoOpt := WithTargetProtocols(ProtocolGRPC)
	codecOpt := WithTargetCodecs(CodecProto)
	compOpt := WithTargetCompression()
	var extra []ServiceOption
	var topts []TranscoderOption
	services := []*Service{}
	var lateBare, sibling *Service
	wantErr := true
	class := verifChoose("class", 32)
	switch class {
	case 0: // valid baseline
		wantErr = false
	case 1:
		protoOpt = WithTargetProtocols()
	case 2:
		pv := Protocol(verifNondetByte("protocol"))
		verifAssume(pv < 1 || pv > 4)
		protoOpt = WithTargetProtocols(pv)
	case 3:
		codecOpt = WithTargetCodecs()
	case 4:
		name := "x" + string(nondetBytes("codec", 1))
		codecOpt = WithTargetCodecs(name)
	case 5:
		name := "z" + string(nondetBytes("comp", 1))
		compOpt = WithTargetCompression(name)
	case 6:
		extra = append(extra, WithMaxMessageBufferBytes(0))
	case 7:
		extra = append(extra, WithMaxGetURLBytes(0))
	case 8: // same method registered twice (two services with the same schema)
		services = append(services, &Service{schema: svc, handler: nopHandler(), opts: append(append([]ServiceOption{}, opts...), protoOpt, codecOpt, compOpt)})
	case 9: // REST-only service without any binding
		protoOpt = WithTargetProtocols(ProtocolREST)
	case 10: // REST-only service with a binding: fine
		protoOpt = WithTargetProtocols(ProtocolREST)
		topts = append(topts, WithRules(&annotations.HttpRule{Selector: "p.S.Get", Pattern: &annotations.HttpRule_Get{Get: "/v1/{name}"}}))
		wantErr = false
	case 11: // variable naming a missing field
		topts = append(topts, WithRules(&annotations.HttpRule{Selector: "p.S.Get", Pattern: &annotations.HttpRule_Get{Get: "/v1/{nope}"}}))
	case 12: // body naming a missing field
		topts = append(topts, WithRules(&annotations.HttpRule{Selector: "p.S.Get", Pattern: &annotations.HttpRule_Post{Post: "/v1/x"}, Body: "nope"}))
	case 13: // nested additional bindings
		inner := &annotations.HttpRule{Pattern: &annotations.HttpRule_Get{Get: "/v3/x"}, AdditionalBindings: []*annotations.HttpRule{{Pattern: &annotations.HttpRule_Get{Get: "/v4/x"}}}}
		topts = append(topts, WithRules(&annotations.HttpRule{Selector: "p.S.Get", Pattern: &annotations.HttpRule_Get{Get: "/v2/x"}, AdditionalBindings: []*annotations.HttpRule{inner}}))
	case 14: // conflicting templates (same method and template twice)
		topts = append(topts, WithRules(
			&annotations.HttpRule{Selector: "p.S.Get", Pattern: &annotations.HttpRule_Get{Get: "/v1/x"}},
			&annotations.HttpRule{Selector: "p.S.Get", Pattern: &annotations.HttpRule_Get{Get: "/v1/x"}}))
	case 16, 17: // two REST-only services, only one of them has a binding (in either order): the bare one is unservable
		other := newFakeService("p.T")
		other.addMethod("List", fkUnary, 0, false)
		protoOpt = WithTargetProtocols(ProtocolREST)
		topts = append(topts, WithRules(&annotations.HttpRule{Selector: "p.S.Get", Pattern: &annotations.HttpRule_Get{Get: "/v1/{name}"}}))
		bare := &Service{schema: other, handler: nopHandler(), opts: []ServiceOption{WithTypeResolver(&fakeResolver{}), WithTargetProtocols(ProtocolREST), WithTargetCodecs(CodecProto)}}
		if class == 16 {
			services = append(services, bare) // bare service first
		} else {
			defer func() {}()
			lateBare = bare // bare service after the one that has bindings
		}
	case 18: // variable naming a repeated field
		topts = append(topts, WithRules(&annotations.HttpRule{Selector: "p.S.Get", Pattern: &annotations.HttpRule_Get{Get: "/v1/{tags}"}}))
	case 19: // variable naming a repeated field inside a nested message
		topts = append(topts, WithRules(&annotations.HttpRule{Selector: "p.S.Get", Pattern: &annotations.HttpRule_Get{Get: "/v1/{sub.items}"}}))
	case 20: // variable naming a singular leaf inside a nested message: fine
		topts = append(topts, WithRules(&annotations.HttpRule{Selector: "p.S.Get", Pattern: &annotations.HttpRule_Get{Get: "/v1/{sub.leaf}"}}))
		wantErr = false
	case 21: // variable path going through a repeated field
		topts = append(topts, WithRules(&annotations.HttpRule{Selector: "p.S.Get", Pattern: &annotations.HttpRule_Get{Get: "/v1/{tags.x}"}}))
	case 22: // variable naming a message-typed field (not a scalar, not a well-known scalar wrapper)
		topts = append(topts, WithRules(&annotations.HttpRule{Selector: "p.S.Get", Pattern: &annotations.HttpRule_Get{Get: "/v1/{sub}"}}))
	case 23: // response_body naming a field of the response: fine
		topts = append(topts, WithRules(&annotations.HttpRule{Selector: "p.S.Get", Pattern: &annotations.HttpRule_Get{Get: "/v1/x"}, ResponseBody: "result"}))
		wantErr = false
	case 24: // response_body naming a missing field
		topts = append(topts, WithRules(&annotations.HttpRule{Selector: "p.S.Get", Pattern: &annotations.HttpRule_Get{Get: "/v1/x"}, ResponseBody: "nope"}))
	case 25: // response_body must be a single field, not a dotted path
		topts = append(topts, WithRules(&annotations.HttpRule{Selector: "p.S.Get", Pattern: &annotations.HttpRule_Get{Get: "/v1/x"}, ResponseBody: "sub.leaf"}))
	case 26: // body must be a single field as well
		topts = append(topts, WithRules(&annotations.HttpRule{Selector: "p.S.Get", Pattern: &annotations.HttpRule_Post{Post: "/v1/x"}, Body: "sub.leaf"}))
	case 27, 28, 29: // a rule whose selector matches no method, next to a rule that does match (27: after it in
		// the same rule set, 28: in a later rule set, 29: before it)
		good := &annotations.HttpRule{Selector: "p.S.Get", Pattern: &annotations.HttpRule_Get{Get: "/v1/{name}"}}
		bad := &annotations.HttpRule{Selector: []string{"p.S.Nope", "p.T.*", "p.S.Ge"}[verifChoose("unmatched", 3)], Pattern: &annotations.HttpRule_Get{Get: "/v9/x"}}
		switch class {
		case 27:
			topts = append(topts, WithRules(good, bad))
		case 28:
			topts = append(topts, WithRules(good), WithRules(bad))
		default:
			topts = append(topts, WithRules(bad, good))
		}
	case 30, 31: // a sibling service that takes its compression from the defaults, registered before (30) or after (31)
		// this one, which switches compression off for itself: options of one service stay with that service
		other := newFakeService("p.T")
		other.addMethod("List", fkUnary, 0, false)
		sibling = &Service{schema: other, handler: nopHandler(), opts: []ServiceOption{WithTypeResolver(&fakeResolver{}), WithTargetProtocols(ProtocolGRPC), WithTargetCodecs(CodecProto)}}
		if class == 30 {
			services = append(services, sibling)
		} else {
			lateBare = sibling
		}
		wantErr = false
	case 15: // invalid template / blank pattern
		if verifChoose("blank", 2) == 1 {
			topts = append(topts, WithRules(&annotations.HttpRule{Selector: "p.S.Get", Pattern: &annotations.HttpRule_Get{Get: ""}}))
		} else {
			topts = append(topts, WithRules(&annotations.HttpRule{Selector: "p.S.Get", Pattern: &annotations.HttpRule_Get{Get: "/v1/**/x"}}))
		}
	}
	all := append(append([]ServiceOption{}, opts...), protoOpt, codecOpt, compOpt)
	all = append(all, extra...)
	services = append(services, &Service{schema: svc, handler: nopHandler(), opts: all})
	if lateBare != nil {
		services = append(services, lateBare)
	}
	// a transcoder-wide default that the per-service option must override
	topts = append(topts, toyCodecOption(CodecProto, false, cfg), toyCodecOption(CodecJSON, true, cfg), toyCompressionOption(cfg),
		WithDefaultServiceOptions(WithMaxMessageBufferBytes(7), WithTargetCodecs(CodecJSON)))
	tr, err := NewTranscoder(services, topts...)
	verifObsBool("accepted", err == nil)
	if wantErr {
		verifReach("unservable")
		verifAssert(err != nil && tr == nil, "C17: a configuration that cannot be served is rejected and no transcoder is returned")
		return
	}
	verifReach("servable")
	verifAssert(err == nil && tr != nil, "C17: a servable configuration is accepted")
	if err != nil {
		return
	}
	mc := tr.methods[methodPath(m)]
	verifAssert(mc != nil, "C17: the method is registered")
	if mc == nil {
		return
	}
	_, hasProto := mc.codecNames[CodecProto]
	verifAssert(hasProto && len(mc.codecNames) == 1 && mc.preferredCodec == CodecProto, "C17: per-service codecs override the transcoder-wide default")
	verifAssert(mc.maxMsgBufferBytes == 7, "C17: defaults apply where the service sets nothing")
	if sibling != nil {
		sc := tr.methods["/p.T/List"]
		verifAssert(sc != nil, "C17: the sibling's method is registered")
		if sc != nil {
			_, sibGzip := sc.compressorNames[CompressionGzip]
			verifAssert(sibGzip, "C17: a service without a compression option of its own keeps the default compressions, whatever its siblings set for themselves")
		}
		verifAssert(len(mc.compressorNames) == 0, "C17: per-service WithNoTargetCompression applies to that service")
	}
	if class == 10 {
		// the binding is reachable through the URL built from its template
		target, vars, _ := tr.restRoutes.match("/v1/abc", "GET")
		verifAssert(target != nil && target.config == mc && len(vars) == 1 && vars[0].value == "abc", "C17: an accepted binding is reachable through the URL built from its template")
	}
}
