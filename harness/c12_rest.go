package vanguard

import (
	"net/http"
)

// hTimeoutRESTClient: a REST client's X-Server-Timeout (decimal seconds) towards every non-REST target.
// strconv.ParseFloat and floating point products are not encoded symbolically, so this is a slice by value:
// a list of concrete header texts in three classes - valid with an exactly known value, valid but beyond the
// representable range (must be clamped or treated as unbounded, never rejected, never turned into a short or
// expired deadline), and malformed (must be rejected before the backend is invoked).
func hTimeoutRESTClient() {
	type tc struct {
		text  string
		class int    // 0 valid, 1 valid but out of range, 2 malformed
		ns    uint64 // exact value (class 0), rounded down to whole nanoseconds
	}
	cases := []tc{
		{"1.5", 0, 1500000000}, {"0.0005", 0, 500000}, {"0", 0, 0}, {"30", 0, 30000000000}, {"0.25", 0, 250000000}, {"1e-10", 0, 0}, {"2e3", 0, 2000000000000},
		{"1e19", 1, 0}, {"9223372037", 1, 0}, {"1e999", 1, 0},
		{"NaN", 2, 0}, {"Inf", 2, 0}, {"-1", 2, 0}, {"-Inf", 2, 0}, {"0x1p-2", 2, 0}, {"1_0", 2, 0}, {"1,5", 2, 0}, {"abc", 2, 0}, {"1.5s", 2, 0},
	}
	c := cases[verifChoose("text", len(cases))]
	in := http.Header{"X-Server-Timeout": {c.text}}
	meta, err := restClientProtocol{}.extractProtocolRequestHeaders(nil, in)
	verifObsBool("rejected", err != nil)
	verifObsBool("hasTimeout", meta.hasTimeout)
	verifReach("rest-client-timeout")
	switch c.class {
	case 2:
		verifReach("malformed-rest-timeout")
		verifAssert(err != nil, "a malformed X-Server-Timeout is rejected")
		return
	case 1:
		verifReach("out-of-range-rest-timeout")
		verifAssert(err == nil, "a syntactically valid X-Server-Timeout is never rejected, however large")
		if err != nil {
			return
		}
		verifAssert(!meta.hasTimeout || (meta.timeout > 0 && uint64(meta.timeout) >= refPracticalLimitNs), "a timeout beyond the representable range is clamped or treated as unbounded, never turned into a short or expired deadline")
		return
	}
	verifReach("valid-rest-timeout")
	verifAssert(err == nil, "a syntactically valid X-Server-Timeout is never rejected")
	if err != nil {
		return
	}
	verifAssert(meta.hasTimeout, "a timeout supplied by a REST client is taken up")
	verifAssert(meta.timeout >= 0 && uint64(meta.timeout) <= c.ns, "deadline never extended")
	verifAssert(c.ns-uint64(meta.timeout) < 1000, "shortfall below one microsecond")
	checkForwarded(meta, c.ns, verifChoose("target", 4))
}
