package vanguard

import (
	"net/http"
	"net/url"
	"strings"

	"google.golang.org/genproto/googleapis/api/annotations"
)

const refUpperHex = "0123456789ABCDEF"

// refPathEscape: RFC 3986 unreserved bytes stay, everything else is %XX (independent of pathEscape).
func refPathEscape(s string) string {
	var out []byte
	for i := 0; i < len(s); i++ {
		c := s[i]
		if refUnreserved(c) {
			out = append(out, c)
		} else {
			out = append(out, '%', refUpperHex[c>>4], refUpperHex[c&15])
		}
	}
	return string(out)
}

func restRules() []*annotations.HttpRule {
	return []*annotations.HttpRule{{
		Selector: pipeSvc + "." + pipeMethod,
		Pattern:  &annotations.HttpRule_Get{Get: "/v1/{name}/items/{id=**}"},
		AdditionalBindings: []*annotations.HttpRule{
			{Pattern: &annotations.HttpRule_Post{Post: "/v2/{name}"}, Body: "*"},
			{Pattern: &annotations.HttpRule_Put{Put: "/v3/things"}, Body: "*"},
		},
	}}
}

type restFixture struct {
	tr      *Transcoder
	backend *pipeBackend
	sink    *fakeSink
	svc     *fakeService
}

func newRestFixture(target Protocol, rules []*annotations.HttpRule) *restFixture {
	f := &restFixture{}
	f.svc = newFakeService(pipeSvc)
	f.svc.addMethod(pipeMethod, fkUnary, 0, false)
	f.backend = &pipeBackend{target: target, unary: true, codec: CodecProto, bufSize: 16}
	if target == ProtocolREST {
		f.backend.codec = CodecJSON
	}
	fc := &fakeConfig{protocols: []Protocol{target}, codecs: []string{CodecProto}, maxMsg: 4096, fieldsMode: true}
	tr, err := newFakeTranscoder(f.svc, f.backend, fc, rules, nil)
	if err != nil {
		return nil
	}
	f.tr = tr
	f.sink = newFakeSink()
	return f
}

// symbolicValue: thorough: any string up to max bytes; quick: exactly one symbolic byte.
func symbolicValue(name string, max int) string {
	if verifTier() == 0 {
		return string(nondetBytes(name, 1))
	}
	return string(nondetBytesUpTo(name, max))
}

// hC07RestIn: REST client -> RPC backend. The message handed to the backend equals: body fields, then
// every path variable (raw segments decoded once, %2F kept in multi-segment captures), then every query
// parameter.
func hC07RestIn() {
	f := newRestFixture(ProtocolGRPC, restRules())
	verifAssert(f != nil, "REST rules accepted")
	if f == nil {
		return
	}
	f.backend.script = &respScript{msgs: []wireMsg{{}}}
	rule := verifChoose("rule", 3)
	maxLen := 2
	if verifTier() == 1 {
		maxLen = 3
	}
	nameLen := 1
	if verifTier() == 1 {
		nameLen = maxLen
	}
	pathName := symbolicValue("name", nameLen)
	var want [fakeMaxFields]string
	var wantSet [fakeMaxFields]bool
	var rawPath, method, query string
	var body []byte
	bodyMsg := &fakeMsg{}
	withBody := rule != 0 && verifChoose("withBody", 2) == 1
	if withBody {
		bodyMsg.fvals[0], bodyMsg.fset[0] = "B", true
		bodyMsg.fvals[1], bodyMsg.fset[1] = "b", true
		body = toyAppendFields(true, nil, bodyMsg)
		want, wantSet = bodyMsg.fvals, bodyMsg.fset
	}
	switch rule {
	case 0:
		method = "GET"
		seg2 := symbolicValue("id", maxLen)
		verifAssume(len(pathName) > 0)
		// id is a multi-segment capture: "x/" + seg2 (two raw segments)
		rawPath = "/v1/" + refPathEscape(pathName) + "/items/x/" + refPathEscape(seg2)
		want[0], wantSet[0] = pathName, true
		idVal, _ := refDecodeOnce("x/"+refPathEscape(seg2), true)
		want[1], wantSet[1] = idVal, true
	case 1:
		method = "POST"
		verifAssume(len(pathName) > 0)
		rawPath = "/v2/" + refPathEscape(pathName)
		want[0], wantSet[0] = pathName, true
	default:
		method = "PUT"
		rawPath = "/v3/things"
	}
	unknownKey := false
	switch {
	case rule == 0:
	case verifChoose("withQuery", 3) == 1:
		qv := symbolicValue("queryId", nameLen)
		query = "id=" + url.QueryEscape(qv)
		want[1], wantSet[1] = qv, true
	case verifChoose("withQuery", 3) == 2:
		// a query key that is a field name followed by one more character (".", a letter, ...): not a field
		c := verifNondetByte("keySuffix")
		verifAssume(refUnreserved(c))
		query = "id" + string([]byte{c}) + "=v"
		unknownKey = true
	}
	if rule != 0 && !withBody && query == "" {
		verifReach("grey-empty-json-body")
		return // body:"*" with a zero-byte JSON body and nothing else: whether that is the empty message is left open
	}
	path, err := url.PathUnescape(rawPath)
	verifAssume(err == nil)
	u := &url.URL{Path: path, RawQuery: query}
	if u.EscapedPath() != rawPath {
		u.RawPath = rawPath
	}
	req := &http.Request{Method: method, URL: u, Proto: "HTTP/1.1", ProtoMajor: 1, ProtoMinor: 1, Header: http.Header{}, Body: &fakeBody{data: body}, ContentLength: -1}
	if rule != 0 {
		req.Header.Set("Content-Type", "application/json")
	}
	f.tr.ServeHTTP(f.sink, req)
	verifObsInt("calls", int64(f.backend.rec.calls))
	verifObsBytes("backend-body", f.backend.rec.body)
	verifObsInt("status", int64(f.sink.status))
	if unknownKey {
		verifReach("unknown-query-key")
		out := f.backend.rec.calls == 1 && f.sink.status == 200
		verifAssert(!out, "C07: a query parameter that names no field is rejected")
		return
	}
	verifReach("rest-request-served")
	verifAssert(f.backend.rec.calls == 1, "C07: a request matching the rule is dispatched")
	if f.backend.rec.calls != 1 {
		return
	}
	frames, complete := refSplitFrames(f.backend.rec.body)
	verifAssert(complete && len(frames) == 1, "C07: backend received one message")
	if !complete || len(frames) != 1 {
		return
	}
	got, gotSet, ok := refToyFields(false, frames[0].payload)
	verifAssert(ok, "C07: backend message decodes")
	for i := 0; i < fakeMaxFields; i++ {
		verifAssert(gotSet[i] == wantSet[i], "C07: exactly the fields given by body, path variables and query parameters are set")
		if wantSet[i] && gotSet[i] {
			verifAssert(got[i] == want[i], "C07: field value = body, then path variable (decoded once), then query parameter")
		}
	}
}

// hC07RestOut: RPC client -> REST backend. Path, query string and body produced by the transcoder
// re-parse under the same rule to the original message.
func hC07RestOut() {
	rule := verifChoose("rule", 4)
	var rules []*annotations.HttpRule
	var tpl string
	switch rule {
	case 3:
		// a variable whose pattern has a literal segment: the value has to spell that literal exactly
		tpl = "/v4/{name=sh/*}"
		rules = []*annotations.HttpRule{{Selector: pipeSvc + "." + pipeMethod, Pattern: &annotations.HttpRule_Get{Get: tpl}}}
	case 0:
		tpl = "/v1/{name}/items/{id=**}"
		rules = []*annotations.HttpRule{{Selector: pipeSvc + "." + pipeMethod, Pattern: &annotations.HttpRule_Get{Get: tpl}}}
	case 1:
		tpl = "/v2/{name}"
		rules = []*annotations.HttpRule{{Selector: pipeSvc + "." + pipeMethod, Pattern: &annotations.HttpRule_Post{Post: tpl}, Body: "*"}}
	default:
		tpl = "/v3/{name}/x"
		rules = []*annotations.HttpRule{{Selector: pipeSvc + "." + pipeMethod, Pattern: &annotations.HttpRule_Get{Get: tpl}}} // no body: id goes to the query string
	}
	f := newRestFixture(ProtocolREST, rules)
	verifAssert(f != nil, "REST rule accepted")
	if f == nil {
		return
	}
	f.backend.script = &respScript{msgs: []wireMsg{{}}}
	maxLen := 2
	if verifTier() == 1 {
		maxLen = 3
	}
	msg := &fakeMsg{}
	outNameLen := 1
	if verifTier() == 1 {
		outNameLen = maxLen
	}
	msg.fvals[0], msg.fset[0] = symbolicValue("name", outNameLen), true
	verifAssume(len(msg.fvals[0]) > 0)
	literalOK := true
	if rule == 3 {
		lit := nondetBytes("nameLiteral", 2)
		leaf := nondetBytes("nameLeaf", 1)
		verifAssume(lit[0] != '/' && lit[1] != '/' && leaf[0] != '/')
		msg.fvals[0] = string(lit) + "/" + string(leaf)
		literalOK = lit[0] == 's' && lit[1] == 'h'
	}
	msg.fvals[1], msg.fset[1] = symbolicValue("id", maxLen), true
	if rule == 0 {
		verifAssume(len(msg.fvals[1]) > 0)
	}
	mkReq := func(m *fakeMsg) *http.Request {
		return &http.Request{Method: "POST", URL: &url.URL{Path: pipePath}, Proto: "HTTP/2", ProtoMajor: 2, Header: http.Header{"Content-Type": {"application/grpc+proto"}},
			Body: &fakeBody{data: appendFrame(nil, 0, toyAppendFields(false, nil, m))}, ContentLength: -1}
	}
	if verifChoose("afterEarlierMessage", 2) == 1 {
		// the rule's route target is shared by every RPC: convert a different message through it first
		old := &fakeMsg{}
		old.fvals[0], old.fset[0] = "OLD", true
		old.fvals[1], old.fset[1] = "PREVIOUS", true
		f.tr.ServeHTTP(newFakeSink(), mkReq(old))
		f.backend.rec = backendRecord{}
		f.backend.script = &respScript{msgs: []wireMsg{{}}}
	}
	f.tr.ServeHTTP(f.sink, mkReq(msg))
	rec := &f.backend.rec
	verifObsStr("backend-path", rec.path)
	verifObsStr("backend-query", rec.rawQuery)
	verifObsBytes("backend-body", rec.body)
	if !literalOK {
		verifReach("value-does-not-fit-the-template")
		verifAssert(rec.calls == 0, "C07: a value that does not spell the template's literal segment is not sent on as a different path")
		return
	}
	verifReach("rest-backend-called")
	verifAssert(rec.calls == 1, "C07: the RPC is forwarded to the REST backend")
	if rec.calls != 1 {
		return
	}
	// re-parse under the same rule
	ref := refParseSimpleTemplate(tpl)
	// the path is judged as it goes on the wire (what a REST server, possibly behind a reverse proxy, parses); the
	// request's decoded Path field must be the decoded form of that same path
	verifObsStr("backend-wire-path", rec.wirePath)
	if dec, derr := url.PathUnescape(rec.wirePath); derr == nil {
		verifAssert(dec == rec.path, "C07: the REST request's URL is consistent (Path is the decoded form of the path sent on the wire)")
	}
	okm, caps := refMatch(&ref, rec.wirePath)
	verifAssert(okm && len(caps) >= 1, "C07: the produced path matches the rule's template")
	if !okm || len(caps) < 1 {
		return
	}
	var back [fakeMaxFields]string
	var backSet [fakeMaxFields]bool
	if rule == 1 { // body "*": the whole message travels in the body
		b, bs, ok := refToyFields(true, rec.body)
		verifAssert(ok, "C07: REST body decodes")
		back, backSet = b, bs
	}
	back[0], backSet[0] = caps[0], true
	if rule == 0 {
		back[1], backSet[1] = caps[1], true
	}
	q, qerr := url.ParseQuery(rec.rawQuery)
	verifAssert(qerr == nil, "C07: produced query string parses")
	if v, has := q["id"]; has && len(v) == 1 {
		back[1], backSet[1] = v[0], true
	}
	if v, has := q["name"]; has && len(v) == 1 {
		back[0], backSet[0] = v[0], true
	}
	hasEncodedSlash := strings.Contains(msg.fvals[1], "%2F") || strings.Contains(msg.fvals[1], "%2f") || strings.Contains(msg.fvals[1], "/")
	for i := 0; i < fakeMaxFields; i++ {
		if rule == 0 && i == 1 && hasEncodedSlash {
			continue // documented exception for multi-segment values containing '/' or %2F
		}
		verifAssert(backSet[i] && back[i] == msg.fvals[i], "C07: converting a message to REST and back is the identity")
	}
}

// hC07HttpBody: REST client uploading a google.api.HttpBody request (rule body "*"): the backend's message has
// data = the raw body bytes and content_type = the request's Content-Type, and query parameters are applied
// after the body whatever media type the upload declares.
func hC07HttpBody() {
	svc := newFakeService(pipeSvc)
	// the upload method is unary or client-streaming (the one stream shape a REST client can use for requests)
	kind := fkUnary
	if verifChoose("clientStream", 2) == 1 {
		kind = fkClient
	}
	svc.addMethodIn(pipeMethod, kind, 0, false, fakeHTTPBodyDesc())
	backend := &pipeBackend{target: ProtocolGRPC, unary: kind == fkUnary, codec: CodecProto, bufSize: 16}
	fc := &fakeConfig{protocols: []Protocol{ProtocolGRPC}, codecs: []string{CodecProto}, maxMsg: 4096, fieldsMode: true}
	rules := []*annotations.HttpRule{{Selector: pipeSvc + "." + pipeMethod, Pattern: &annotations.HttpRule_Post{Post: "/upload"}, Body: "*"}}
	tr, err := newFakeTranscoder(svc, backend, fc, rules, nil)
	verifAssert(err == nil, "HttpBody rule accepted")
	if err != nil {
		return
	}
	// the backend answers with the one response message such a method has - or, wrongly, with none or two
	respCount := []int{1, 0, 2}[verifChoose("responses", 3)]
	backend.script = &respScript{msgs: make([]wireMsg, respCount)}
	for i := range backend.script.msgs {
		backend.script.msgs[i].abstract = toyAppendFields(false, nil, &fakeMsg{}) // an (empty) message in the field-carrying toy encoding
	}
	contentType := []string{"application/octet-stream", "text/plain", "image/png", "application/json"}[verifChoose("contentType", 4)]
	body := nondetBytes("body", verifChoose("bodyLen", 3))
	wantType := contentType
	query := ""
	if verifChoose("withQuery", 2) == 1 {
		qv := string(nondetBytes("queryType", 1))
		verifAssume(refUnreserved(qv[0]))
		query = "content_type=" + qv
		wantType = qv
	}
	req := &http.Request{Method: "POST", URL: &url.URL{Path: "/upload", RawQuery: query}, Proto: "HTTP/1.1", ProtoMajor: 1, ProtoMinor: 1,
		Header: http.Header{"Content-Type": {contentType}}, Body: &fakeBody{data: body}, ContentLength: -1}
	sink := newFakeSink()
	tr.ServeHTTP(sink, req)
	verifObsInt("calls", int64(backend.rec.calls))
	verifObsBytes("backend-body", backend.rec.body)
	verifObsInt("status", int64(sink.status))
	verifReach("httpbody-upload-served")
	verifAssert(backend.rec.calls == 1, "C07: an HttpBody upload matching the rule is dispatched")
	if backend.rec.calls != 1 {
		return
	}
	frames, complete := refSplitFrames(backend.rec.body)
	verifAssert(complete && len(frames) == 1, "C07: backend received one message")
	if !complete || len(frames) != 1 {
		return
	}
	got, gotSet, ok := refToyFields(false, frames[0].payload)
	verifAssert(ok, "C07: backend message decodes")
	verifAssert(gotSet[1] && got[1] == string(body), "C07: HttpBody data = the raw request body")
	verifAssert(gotSet[0] && got[0] == wantType, "C07: HttpBody content_type = the request's Content-Type, then query parameters")
	if respCount == 1 {
		verifAssert(sink.status == 200, "C07: the upload succeeds")
	} else {
		verifReach("upload-answered-with-wrong-number-of-messages")
		verifAssert(sink.status != 200, "C03: an upload whose backend sent no or two response messages is not answered with a successful body")
	}
}

// hC07HttpBodyResp: REST client downloading a google.api.HttpBody response (unary or server-streaming): the
// HTTP body is the raw data bytes of the message(s), in order, and the Content-Type is the first message's
// content_type.
func hC07HttpBodyResp() {
	svc := newFakeService(pipeSvc)
	streaming := verifChoose("serverStream", 2) == 1
	kind := fkUnary
	if streaming {
		kind = fkServer
	}
	m := svc.addMethod(pipeMethod, kind, 0, false)
	m.out = fakeHTTPBodyDesc()
	backend := &pipeBackend{target: ProtocolGRPC, unary: false, codec: CodecProto, bufSize: 16}
	fc := &fakeConfig{protocols: []Protocol{ProtocolGRPC}, codecs: []string{CodecProto}, maxMsg: 4096, fieldsMode: true}
	rules := []*annotations.HttpRule{{Selector: pipeSvc + "." + pipeMethod, Pattern: &annotations.HttpRule_Get{Get: "/download/{name}"}}}
	tr, err := newFakeTranscoder(svc, backend, fc, rules, nil)
	verifAssert(err == nil, "HttpBody response rule accepted")
	if err != nil {
		return
	}
	n := 1
	if streaming {
		n = verifChoose("messages", 3)
	}
	var wantBody []byte
	wantType := ""
	mixedTypes := false // chunks announcing different media types: which one the response carries is left open
	var msgs []wireMsg
	for i := 0; i < n; i++ {
		fm := &fakeMsg{desc: m.out}
		data := nondetBytes("data", verifChoose("dataLen", 3))
		ct := []string{"text/plain", "image/png"}[verifChoose("type", 2)]
		fm.fvals[0], fm.fset[0] = ct, true
		fm.fvals[1], fm.fset[1] = string(data), true
		if i == 0 {
			wantType = ct
		} else if ct != wantType {
			mixedTypes = true
		}
		wantBody = append(wantBody, data...)
		msgs = append(msgs, wireMsg{abstract: toyAppendFields(false, nil, fm)}) // the proto toy codec is the identity
	}
	backend.script = &respScript{msgs: msgs}
	failing := verifChoose("backendFails", 2) == 1
	if failing {
		// the backend fails after the messages it has sent
		backend.script.errCode, backend.script.errMsg, backend.script.errAfter = 5, "nf", len(msgs)
	}
	req := &http.Request{Method: "GET", URL: &url.URL{Path: "/download/x"}, Proto: "HTTP/1.1", ProtoMajor: 1, ProtoMinor: 1,
		Header: http.Header{}, Body: &fakeBody{}, ContentLength: 0}
	sink := newFakeSink()
	tr.ServeHTTP(sink, req)
	verifObsInt("calls", int64(backend.rec.calls))
	verifObsInt("status", int64(sink.status))
	verifObsBytes("client-body", sink.body)
	verifObsStr("content-type", sink.hdr.Get("Content-Type"))
	verifReach("httpbody-download-served")
	verifAssert(backend.rec.calls == 1, "C07: an HttpBody download matching the rule is dispatched")
	if backend.rec.calls != 1 {
		return
	}
	if failing {
		verifReach("httpbody-download-failed")
		verifAssert(sink.status == 404, "C03: a failed download is reported with the error's HTTP status")
		verifAssert(sink.headSnap.Get("Content-Type") == "application/json", "C03: the error body of a failed HttpBody download is declared as JSON, not as the download's media type")
		return
	}
	verifAssert(sink.status == 200, "C07: an HttpBody download succeeds")
	verifAssert(bytesEq(sink.body, wantBody), "C07: the HTTP body of an HttpBody response is the raw data of its message(s), in order")
	if n > 0 && !mixedTypes {
		verifAssert(sink.headSnap.Get("Content-Type") == wantType, "C07: the Content-Type of an HttpBody response is the message's content_type")
	}
}
