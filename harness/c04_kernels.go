package vanguard

import (
	"encoding/base64"
	"errors"
	"net/http"

	"connectrpc.com/connect"
)

// refStatusFromRPC is the published Connect RPC->HTTP table (DESIGN Appendix E.4).
func refStatusFromRPC(c uint32) (int, bool) {
	switch c {
	case 0:
		return 200, true
	case 1:
		return 499, true
	case 2:
		return 500, true
	case 3:
		return 400, true
	case 4:
		return 504, true
	case 5:
		return 404, true
	case 6:
		return 409, true
	case 7:
		return 403, true
	case 8:
		return 429, true
	case 9:
		return 400, true
	case 10:
		return 409, true
	case 11:
		return 400, true
	case 12:
		return 501, true
	case 13:
		return 500, true
	case 14:
		return 503, true
	case 15:
		return 500, true
	case 16:
		return 401, true
	}
	return 0, false
}

// hStatusFromRPC: for every uint32 code httpStatusCodeFromRPC does not panic, follows the
// published table for 0..16 and yields a 5xx server error for everything else.
func hStatusFromRPC() {
	c := verifNondetUint32("code")
	got := httpStatusCodeFromRPC(connect.Code(c))
	verifObsInt("status", int64(got))
	want, defined := refStatusFromRPC(c)
	if defined {
		verifReach("defined-code")
		verifAssert(got == want, "rpc->http status follows the published table")
	} else {
		verifReach("out-of-range-code")
		verifAssert(got >= 500 && got <= 599, "out-of-range code maps to a server error")
	}
}

func refStatusToRPC(s int) connect.Code {
	switch s {
	case 200:
		return 0
	case 400:
		return connect.CodeInternal
	case 401:
		return connect.CodeUnauthenticated
	case 403:
		return connect.CodePermissionDenied
	case 404:
		return connect.CodeUnimplemented
	case 429, 502, 503, 504:
		return connect.CodeUnavailable
	}
	return connect.CodeUnknown
}

// hStatusToRPC: for every int status, httpStatusCodeToRPC equals the published HTTP->RPC mapping.
func hStatusToRPC() {
	s := int(verifNondetInt64("status"))
	got := httpStatusCodeToRPC(s)
	verifObsInt("code", int64(got))
	verifReach("any-status")
	verifAssert(got == refStatusToRPC(s), "http->rpc code follows the published mapping")
}

// hPercentRoundTrip: grpcPercentDecode(grpcPercentEncode(m)) == m for all byte strings up to the
// bound, and the encoded form is visible ASCII without a raw '%' other than escapes.
func hPercentRoundTrip() {
	max := 4
	if verifTier() == 1 {
		max = 7
	}
	m := nondetBytesUpTo("msg", max)
	enc := grpcPercentEncode(string(m))
	verifObsStr("enc", enc)
	for i := 0; i < len(enc); i++ {
		verifAssert(enc[i] >= ' ' && enc[i] <= '~', "encoded grpc-message is visible ASCII")
	}
	dec, err := grpcPercentDecode(enc)
	verifReach("roundtrip")
	verifAssert(err == nil, "decoder accepts encoder output")
	verifAssert(dec == string(m), "percent decode inverts encode")
}

// refPercentWellFormed: every '%' is followed by two hex digits.
func refPercentWellFormed(s []byte) bool {
	for i := 0; i < len(s); i++ {
		if s[i] != '%' {
			continue
		}
		if i+2 >= len(s) {
			return false
		}
		if !refIsHex(s[i+1]) || !refIsHex(s[i+2]) {
			return false
		}
		i += 2
	}
	return true
}

func refIsHex(c byte) bool {
	return (c >= '0' && c <= '9') || (c >= 'a' && c <= 'f') || (c >= 'A' && c <= 'F')
}

func refHexVal(c byte) byte {
	switch {
	case c >= '0' && c <= '9':
		return c - '0'
	case c >= 'a' && c <= 'f':
		return c - 'a' + 10
	default:
		return c - 'A' + 10
	}
}

// hPercentDecode: the decoder accepts exactly the well-formed strings and decodes each escape once.
func hPercentDecode() {
	max := 4
	if verifTier() == 1 {
		max = 6
	}
	s := nondetBytesUpTo("s", max)
	dec, err := grpcPercentDecode(string(s))
	wf := refPercentWellFormed(s)
	if wf {
		verifReach("well-formed")
		verifAssert(err == nil, "well-formed percent string accepted")
		// reference decode
		var want []byte
		for i := 0; i < len(s); i++ {
			if s[i] == '%' {
				want = append(want, refHexVal(s[i+1])<<4|refHexVal(s[i+2]))
				i += 2
			} else {
				want = append(want, s[i])
			}
		}
		verifAssert(dec == string(want), "each escape decoded exactly once")
	} else {
		verifReach("malformed")
		verifAssert(err != nil, "malformed escape rejected")
	}
}

// hGrpcEndRoundTrip: an error end written as gRPC trailers and parsed back keeps code and message;
// status keys are removed from the trailer map handed on as application metadata.
func hGrpcEndRoundTrip() {
	code := verifNondetUint32("code")
	verifAssume(code >= 1 && code <= 20)
	max := 3
	if verifTier() == 1 {
		max = 5
	}
	msg := nondetBytesUpTo("msg", max)
	end := &responseEnd{err: connect.NewWireError(connect.Code(code), errors.New(string(msg)))}
	tr := http.Header{}
	grpcWriteEndToTrailers(end, tr)
	verifObsStr("grpc-status", tr.Get("Grpc-Status"))
	verifObsStr("grpc-message", tr.Get("Grpc-Message"))
	got := grpcExtractErrorFromTrailer(tr)
	verifReach("error-end")
	verifAssert(got != nil, "error outcome stays an error")
	if got == nil {
		return
	}
	verifAssert(uint32(got.Code()) == code, "error code survives gRPC trailers")
	verifAssert(got.Message() == string(msg), "error message survives gRPC trailers")
	_, hasStatus := tr["Grpc-Status"]
	_, hasMsg := tr["Grpc-Message"]
	verifAssert(!hasStatus && !hasMsg, "status keys removed from application trailers")
}

// hConnectDetails: error details carried by a Connect backend's error (type name + unpadded standard base64
// of the bytes) survive the conversion to the internal error and back to the Connect wire form: every detail
// is kept, with its type and its exact bytes (all byte strings up to the bound, including the ones whose
// base64 form contains '+' or '/').
func hConnectDetails() {
	maxLen := 3
	if verifTier() == 1 {
		maxLen = 6 // (4+ bytes go through base64's 32/64-bit fast paths: ~80 s of solver time per length)
	}
	n := verifChoose("len", maxLen+1)
	data := nondetBytes("detail", n)
	second := nondetBytes("detail2", 1)
	wire := &connectWireError{
		Code:    connect.CodeNotFound,
		Message: "m",
		Details: []connectWireDetail{
			{Type: "pkg.Detail", Value: base64.RawStdEncoding.EncodeToString(data)},
			{Type: "pkg.Other", Value: base64.RawStdEncoding.EncodeToString(second)},
		},
	}
	cerr := wire.toConnectError()
	details := cerr.Details()
	verifObsInt("details", int64(len(details)))
	verifReach("converted")
	verifAssert(cerr.Code() == connect.CodeNotFound && cerr.Message() == "m", "C04: code and message survive next to details")
	verifAssert(len(details) == 2, "C04: every error detail of a Connect error survives")
	if len(details) != 2 {
		return
	}
	verifObsBytes("detail-bytes", details[0].Bytes())
	verifAssert(details[0].Type() == "pkg.Detail" && details[1].Type() == "pkg.Other", "C04: error detail types survive")
	verifAssert(bytesEq(details[0].Bytes(), data) && bytesEq(details[1].Bytes(), second), "C04: error detail bytes survive")
	// and back to the Connect wire form
	back := connectErrorToWireError(cerr, nil)
	verifAssert(len(back.Details) == 2 && back.Details[0].Type == "pkg.Detail" && back.Details[0].Value == wire.Details[0].Value &&
		back.Details[1].Value == wire.Details[1].Value, "C04: error details re-encode to the same Connect wire form")
}
