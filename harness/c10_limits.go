package vanguard

import (
	"bytes"
	"io"
)

// ---- arithmetic kernels: unconstrained uint32 limit --------------------------------------------

// hLimitEnvelope: processRequestEnvelope accepts a length iff it is <= L (no wrap-around for any uint32).
func hLimitEnvelope() {
	L := verifNondetUint32("L")
	verifAssume(L > 0)
	var b envelopeBytes
	for i := range b {
		b[i] = verifNondetByte("env")
	}
	verifAssume(b[0] <= 1)
	op := &operation{methodConf: &methodConfig{serviceOptions: &serviceOptions{maxMsgBufferBytes: L}}, clientEnveloper: grpcClientProtocol{}}
	n, _, err := op.processRequestEnvelope(b)
	length := refBE32(b[1:])
	if length > L {
		verifReach("over-limit")
		verifAssert(err != nil, "C10: envelope length above the limit is rejected")
		verifAssert(connect_code(err) == 8, "C10: rejection is resource_exhausted")
	} else {
		verifReach("within-limit")
		verifAssert(err == nil && uint32(n) == length, "C10: envelope length within the limit is accepted")
	}
}

// hLimitReadLimit: determineReadLimit for un-enveloped bodies: declared length above L is rejected up front,
// otherwise exactly min(declared, L) bytes may be read.
func hLimitReadLimit() {
	L := verifNondetUint32("L")
	verifAssume(L > 0)
	cl := verifNondetInt64("contentLength")
	verifAssume(cl >= -1)
	op := &operation{methodConf: &methodConfig{serviceOptions: &serviceOptions{maxMsgBufferBytes: L}}, contentLen: cl}
	limit, grow, _, err := op.determineReadLimit()
	switch {
	case cl == -1:
		verifReach("undeclared")
		verifAssert(err == nil && limit == int64(L) && !grow, "C10: undeclared length is read up to L")
	case cl > int64(L):
		verifReach("declared-over")
		verifAssert(err != nil && connect_code(err) == 8, "C10: declared length above L is rejected as resource_exhausted")
	default:
		verifReach("declared-within")
		verifAssert(err == nil && limit == cl, "C10: declared length within L is the read limit")
	}
}

type countingReader struct {
	avail int64 // bytes the source will still deliver
	eof   bool
}

func (c *countingReader) Read(p []byte) (int, error) {
	if c.avail == 0 {
		return 0, io.EOF
	}
	n := int64(len(p))
	if n > c.avail {
		n = c.avail
	}
	c.avail -= n
	return int(n), nil
}

// hLimitHardReader: one Read step of hardLimitReader from an arbitrary state (read <= limit+1):
// it never hands out more than limit+1 bytes in total and fails exactly when the total exceeds the limit.
func hLimitHardReader() {
	limit := verifNondetInt64("limit")
	read := verifNondetInt64("read")
	verifAssume(limit >= 0 && limit < 1<<40 && read >= 0 && read <= limit+1)
	bufLen := verifChoose("buf", 4) + 1
	avail := verifNondetInt64("avail")
	verifAssume(avail >= 0 && avail <= 8)
	src := &countingReader{avail: verifConcretize64(avail)}
	h := &hardLimitReader{r: src, limit: limit, read: read}
	n, err := h.Read(make([]byte, bufLen))
	verifReach("one-step")
	verifAssert(h.read == read+int64(n), "C10: bytes accounted")
	verifAssert(h.read <= limit+1, "C10: never more than limit+1 bytes handed out")
	if h.read > limit {
		verifAssert(err != nil && err != io.EOF, "C10: exceeding the limit is an error")
		verifAssert(connect_code(err) == 8, "C10: the error is resource_exhausted")
	} else if read <= limit {
		verifAssert(err == nil || err == io.EOF, "C10: within the limit no size error")
	}
}

// hLimitWriter: limitWriter accepts a write iff the buffered total stays <= L.
func hLimitWriter() {
	L := verifNondetUint32("L")
	have := verifChoose("have", 4)
	add := verifChoose("add", 4)
	buf := bytes.NewBuffer(make([]byte, have))
	sink := newFakeSink()
	op := &operation{methodConf: &methodConfig{serviceOptions: &serviceOptions{maxMsgBufferBytes: L}}, client: clientProtocolDetails{protocol: connectUnaryPostClientProtocol{}, codec: &toyCodec{name: CodecProto}}, bufferPool: &bufferPool{}}
	op.isValid = true
	rw := &responseWriter{op: op, delegate: sink, flusher: sink}
	lw := &limitWriter{buf: buf, limit: L, rw: rw}
	n, err := lw.Write(make([]byte, add))
	if uint32(have+add) > L {
		verifReach("over")
		verifAssert(err != nil && n == 0 && buf.Len() == have, "C10: write that would exceed L is refused and not buffered")
		verifAssert(connect_code(err) == 8, "C10: refusal is resource_exhausted")
	} else {
		verifReach("within")
		verifAssert(err == nil && n == add && buf.Len() == have+add, "C10: write within L is accepted")
	}
}

// ---- pipeline: sizes around L in wire / decompressed / re-encoded form -----------------------------

const c10L = 4

func maxInt(a ...int) int {
	m := a[0]
	for _, x := range a[1:] {
		if x > m {
			m = x
		}
	}
	return m
}

func expandBytes(b []byte, e int) []byte {
	if e <= 1 {
		return b
	}
	out := make([]byte, 0, len(b)*e)
	for _, x := range b {
		for i := 0; i < e; i++ {
			out = append(out, x)
		}
	}
	return out
}

// hC10Req: request messages of 3,4,5,9 wire bytes (L=4), optionally compressed with an expanding
// decompressor (x1, x3), optionally re-encoded (proto -> JSON: +2 bytes), enveloped and un-enveloped
// clients, declared and undeclared content length.
func hC10Req() {
	produced := 0
	cfg := &pipeCfg{maxMsg: c10L, clientCodec: CodecProto, svcCodecs: []string{CodecProto}, decompCount: &produced}
	clientForm := verifChoose("client", 3)
	enveloped := clientForm == 0
	isGet := clientForm == 2 // Connect GET: the message travels (optionally compressed) in the query string
	switch clientForm {
	case 0:
		cfg.client = cfGRPC
		cfg.kind = fkBidi
	case 1:
		cfg.client = cfConnectUnary
	default:
		cfg.client = cfConnectGet
		cfg.idem, cfg.hasIdem = 1, true
	}
	restTarget := false
	switch verifChoose("target", 4) {
	case 0:
		cfg.svcProtos = []Protocol{ProtocolGRPC}
	case 1:
		cfg.svcProtos = []Protocol{ProtocolConnect}
	case 3:
		// a REST backend (always JSON): the leading message is decoded before the backend is invoked, to build
		// the request line, and re-encoded for the body
		cfg.svcProtos = []Protocol{ProtocolREST}
		cfg.kind = fkUnary
		restTarget = true
	default:
		cfg.svcProtos = []Protocol{ProtocolGRPC}
		cfg.kind = fkUnary
	}
	reencode := restTarget || verifChoose("reencode", 2) == 1
	jsonExtra := func(n int) int { return n + 2 }
	if reencode {
		cfg.svcCodecs = []string{CodecJSON}
		if verifChoose("bulkyJSON", 2) == 1 {
			cfg.jsonRepeat = 3 // a codec whose re-encoded form is three times larger
			jsonExtra = func(n int) int { return 3*n + 2 }
		}
	}
	compressed := verifChoose("compressed", 2) == 1
	cfg.expand = 1
	if compressed {
		cfg.clientComp = true
		cfg.svcComp = verifChoose("svcComp", 2) == 1
		cfg.expand = []int{1, 3}[verifChoose("expand", 2)]
	}
	if isGet && cfg.kind != fkUnary {
		return
	}
	if pipeIsPassThrough(cfg) {
		return
	}
	k := []int{c10L - 1, c10L, c10L + 1, 2*c10L + 1}[verifChoose("size", 4)]
	raw := nondetBytes("payload", k) // bytes before toy compression
	if isGet {
		// the query-string form goes through base64: sizes are what matters here, contents are fixed
		// (symbolic GET payloads are C19's subject)
		raw = []byte("abcdefghi")[:k]
	}
	p := newPipe(cfg)
	if !p.buildOK {
		return
	}
	p.backend.script = &respScript{}
	if cfg.kind == fkUnary {
		p.backend.script.msgs = []wireMsg{{abstract: []byte{'r'}}} // a unary response carries one (small) message
	}
	p.req = buildClientRequest(cfg, nil, p.body)
	wire := raw
	if compressed {
		wire = refToyCompress(raw)
	}
	abstract := expandBytes(raw, cfg.expand) // what the message is after decompression (proto = identity)
	if !compressed {
		abstract = raw
	}
	if isGet {
		q := "connect=v1&encoding=" + cfg.clientCodec
		if compressed {
			q += "&compression=gzip"
		}
		p.req.URL.RawQuery = q + "&base64=1&message=" + refBase64URL(wire)
	} else if enveloped {
		fl := byte(0)
		if compressed {
			fl = 1
		}
		var lead []byte
		if verifTier() == 1 && cfg.kind != fkUnary && verifChoose("leadingMessage", 2) == 1 {
			// thorough: the message at the limit is the second of the stream, after a small valid one
			lead = appendFrame(nil, 0, []byte{'k'})
		}
		p.body.data = appendFrame(lead, fl, wire)
	} else {
		p.body.data = wire
		if verifChoose("declared", 2) == 1 {
			p.req.ContentLength = int64(len(wire))
			p.req.Header.Set("Content-Length", "0")
		}
	}
	p.tr.ServeHTTP(p.sink, p.req)

	target, codec, comp := refNegotiate(cfg)
	if p.backend.rec.method == "GET" {
		verifOutside("Connect GET towards the backend is decided in C19")
	}
	// representations the transcoder itself materialises
	reps := []int{len(wire)}
	if !compressed || !comp || reencode || isGet {
		reps = append(reps, len(abstract)) // it decompresses (a GET's message parameter always)
	}
	if reencode {
		reps = append(reps, jsonExtra(len(abstract)))
	}
	if comp && reencode {
		reps = append(reps, jsonExtra(len(abstract))+1) // re-encoded and re-compressed
	}
	biggest := maxInt(reps...)
	// does the transcoder have to hold the whole message? (re-encoding, de/re-compression, or measuring an
	// un-enveloped body of undeclared length for an enveloped target); otherwise it may stream it through
	targetEnveloped := target == ProtocolGRPC || target == ProtocolGRPCWeb || (target == ProtocolConnect && cfg.kind != fkUnary)
	mustBuffer := reencode || (compressed && !comp) || (!enveloped && targetEnveloped && p.req.ContentLength < 0) || isGet
	out := refParseClientResponse(cfg, p.sink, p.backend.rec.calls > 0)
	verifObsInt("client-code", int64(out.code))
	verifObsInt("decompressed-bytes", int64(produced))
	verifObsBytes("backend-body", p.backend.rec.body)
	verifReach("served")
	verifAssert(out.valid, "C10: response valid")
	// what the backend got
	delivered := false
	if p.backend.rec.calls > 0 {
		msgs, ok := refParseBackendBody(target, cfg.kind == fkUnary, codec, comp, p.backend.rec.body)
		for _, m := range msgs {
			// (the reference decompressor does not expand: a still-compressed payload decodes to raw)
			if ok && (bytesEq(m, abstract) || bytesEq(m, raw)) {
				delivered = true
			}
		}
	}
	verifAssert(produced <= 2*c10L+1, "C10: decompression is bounded by a small multiple of the limit")
	verifAssert(out.code != 0 || delivered, "C01: a request reported successful reached the backend intact (never cut at the limit)")
	switch {
	case biggest > 2*c10L && !mustBuffer:
		verifReach("far-over-limit-streamed")
		verifAssert(out.code == 0 || out.code == 8, "C10: a streamed-through message is delivered or refused")
		verifAssert(delivered == (out.code == 0), "C10: delivered iff reported successful")
	case biggest > 2*c10L:
		verifReach("far-over-limit")
		verifAssert(out.code == 8, "C10: a message with a representation above 2L ends the RPC with resource_exhausted")
		verifAssert(!delivered, "C10: the oversized message is not delivered")
	case biggest <= c10L:
		verifReach("within-limit")
		verifAssert(out.code == 0 && delivered, "C10: a message whose every representation fits in L is never rejected for size")
	default:
		verifReach("between-L-and-2L")
		verifAssert(out.code == 0 || out.code == 8, "C10: between L and 2L either delivered or resource_exhausted")
		verifAssert(delivered == (out.code == 0), "C10: delivered iff reported successful")
	}
}

// hC10Resp: response messages of 3,4,5,9 bytes (L=4) from gRPC / Connect-unary backends, optionally
// compressed with the expanding decompressor and/or re-encoded, towards enveloped (gRPC) and buffering
// (Connect unary) clients; plus the terminal frame of a Connect streaming client under a tiny limit.
func hC10Resp() {
	produced := 0
	cfg := &pipeCfg{maxMsg: c10L, clientCodec: CodecProto, svcCodecs: []string{CodecProto}, decompCount: &produced, kind: fkUnary}
	switch verifChoose("client", 3) {
	case 0:
		cfg.client = cfGRPC
	case 1:
		cfg.client = cfConnectUnary
	default:
		cfg.client = cfConnectStream
		cfg.kind = fkBidi
	}
	if verifChoose("target", 2) == 0 {
		cfg.svcProtos = []Protocol{ProtocolGRPC}
	} else {
		cfg.svcProtos = []Protocol{ProtocolConnect}
	}
	reencode := verifChoose("reencode", 2) == 1
	bulky := 1
	if reencode {
		cfg.svcCodecs = []string{CodecJSON}
		if verifChoose("bulkyJSON", 2) == 1 {
			cfg.jsonRepeat, bulky = 3, 3 // the backend's JSON form is three times larger than the client's proto form
		}
	}
	cfg.svcComp = true
	compressed := verifChoose("compressed", 2) == 1
	cfg.expand = 1
	if compressed {
		cfg.expand = []int{1, 3}[verifChoose("expand", 2)]
	}
	if pipeIsPassThrough(cfg) {
		return
	}
	k := []int{c10L - 1, c10L, c10L + 1, 2*c10L + 1}[verifChoose("size", 4)]
	raw := nondetBytes("payload", k)
	p := newPipe(cfg)
	if !p.buildOK {
		return
	}
	target, codec, _ := refNegotiate(cfg)
	unaryKind := cfg.kind == fkUnary
	targetEnveloped := target == ProtocolGRPC || (target == ProtocolConnect && !unaryKind)
	// the backend's own message (abstract bytes as it encodes them): with an expanding decompressor the
	// client-side meaning of the compressed payload is the expanded byte string
	declareLen := !targetEnveloped && verifChoose("declareLen", 2) == 1
	p.backend.script = &respScript{msgs: []wireMsg{{abstract: raw, compressed: compressed}}, comp: compressed, declareLen: declareLen}
	if verifChoose("byteWiseWrites", 2) == 1 {
		p.backend.script.writeMode = wmBytes // the handler writes its response one byte per Write
	}
	p.serve([]wireMsg{{abstract: []byte{}}}) // an empty request message: every form of it fits in L
	out := refParseClientResponse(cfg, p.sink, p.backend.rec.calls > 0)
	verifAssert(p.backend.rec.calls == 1, "C10: the (empty) request reaches the backend")
	verifObsInt("client-code", int64(out.code))
	verifObsInt("decompressed-bytes", int64(produced))
	verifObsStr("oracle-why", out.why)
	verifObsBytes("client-body", p.sink.body)
	verifObsBytes("backend-req-body", p.backend.rec.body)
	verifReach("served")
	verifAssert(produced <= 2*c10L+1, "C10: decompression is bounded by a small multiple of the limit")
	if cfg.client == cfConnectStream {
		// terminal frame under a tiny limit: whatever happens, the client must still get exactly one terminal disposition
		verifReach("connect-stream-client")
		verifAssert(out.valid, "C10: the end-of-stream frame is delivered (or replaced by a short error) even under a tiny limit")
		return
	}
	verifAssert(out.valid, "C10: response valid")
	if !out.valid {
		return
	}
	wireLen := len(encodeMsg(codec, wireMsg{abstract: raw, compressed: compressed}))
	meaning := raw
	if compressed {
		meaning = expandBytes(raw, cfg.expand)
	}
	clientEnv := clientEnveloped(cfg.client)
	// does the transcoder decompress? only when it must re-encode (compression is relayed to the client otherwise)
	reps := []int{wireLen}
	if reencode {
		decoded := len(meaning)
		if codec == CodecJSON {
			decoded = len(meaning) // abstract size; JSON form is +2 on the backend side
		}
		reps = append(reps, decoded, bulky*decoded+2)
	}
	biggest := maxInt(reps...)
	mustBuffer := reencode || !clientEnv || (!targetEnveloped && clientEnv && !declareLen)
	delivered := false
	for _, m := range out.msgs {
		if bytesEq(m, meaning) || bytesEq(m, raw) {
			delivered = true
		}
	}
	verifAssert(out.code != 0 || delivered, "C01: a response reported successful reached the client intact (never cut at the limit)")
	switch {
	case biggest > 2*c10L && mustBuffer:
		verifReach("far-over-limit")
		verifAssert(out.code == 8, "C10: a response message with a representation above 2L ends the RPC with resource_exhausted")
		verifAssert(!delivered, "C10: the oversized response message is not delivered")
	case biggest <= c10L:
		verifReach("within-limit")
		verifAssert(out.code == 0 && delivered, "C10: a response message whose every representation fits in L is never rejected for size")
	default:
		verifReach("grey-band")
		verifAssert(out.code == 0 || out.code == 8, "C10: otherwise delivered or resource_exhausted")
		verifAssert(delivered == (out.code == 0), "C10: delivered iff reported successful")
	}
}

// hC10EndFrame: the end of stream of gRPC-Web and Connect streaming backends is a frame in the body, and it may
// be compressed like any other frame. A few wire bytes (within L) that inflate far beyond L: the decompressed
// size counts as well, so the transcoder must stop inflating near the limit and must not hand the inflated
// end of stream on as a success.
func hC10EndFrame() {
	const L = 32
	produced := 0
	cfg := &pipeCfg{maxMsg: L, clientCodec: CodecProto, svcCodecs: []string{CodecProto}, decompCount: &produced, kind: fkBidi}
	cfg.client = []int{cfGRPC, cfGRPCWeb, cfConnectStream}[verifChoose("client", 3)]
	cfg.svcProtos = []Protocol{[]Protocol{ProtocolGRPCWeb, ProtocolConnect}[verifChoose("target", 2)]}
	if verifChoose("reencode", 2) == 1 {
		cfg.svcCodecs = []string{CodecJSON}
	}
	cfg.svcComp = true
	cfg.expand = []int{1, 5}[verifChoose("expand", 2)]
	if pipeIsPassThrough(cfg) {
		return
	}
	p := newPipe(cfg)
	if !p.buildOK {
		return
	}
	p.backend.script = &respScript{msgs: []wireMsg{{abstract: []byte{'r'}}}, comp: true, endComp: true}
	p.serve([]wireMsg{{abstract: []byte{'q'}}})
	out := refParseClientResponse(cfg, p.sink, p.backend.rec.calls > 0)
	verifObsInt("client-code", int64(out.code))
	verifObsInt("decompressed-bytes", int64(produced))
	verifObsInt("client-bytes", int64(len(p.sink.body)))
	verifReach("compressed-end-frame")
	verifAssert(p.backend.rec.calls == 1, "C10: the request reaches the backend")
	verifAssert(produced <= 2*L+1, "C10: inflating a compressed end-of-stream frame is bounded by a small multiple of the limit")
	verifAssert(out.valid, "C10: the client gets a valid terminal disposition")
	if cfg.expand == 1 {
		verifReach("end-frame-fits")
		verifAssert(out.valid && out.code == 0 && len(out.msgs) == 1, "C10: a compressed end-of-stream frame that fits in L in every form is accepted")
	} else {
		verifReach("end-frame-inflates-beyond-2L")
		verifAssert(out.code != 0, "C10: an end-of-stream frame that inflates beyond the limit is not relayed as a success")
		verifAssert(len(p.sink.body) <= 4*L, "C10: the inflated end of stream is not delivered to the client")
	}
}
