package vanguard

import (
	"io"
	"net/http"
)

// bufDecorator is a middleware ResponseWriter that holds written bytes until its own Flush (like a compressing
// or buffering middleware); unflushed bytes are invisible to the client. It also offers Unwrap.
type bufDecorator struct {
	inner   *fakeSink
	pending []byte
}

func (d *bufDecorator) Header() http.Header { return d.inner.Header() }
func (d *bufDecorator) WriteHeader(c int)   { d.inner.WriteHeader(c) }
func (d *bufDecorator) Write(p []byte) (int, error) {
	d.pending = append(d.pending, p...)
	return len(p), nil
}
func (d *bufDecorator) Flush() {
	if len(d.pending) > 0 {
		d.inner.Write(d.pending)
		d.pending = nil
	}
	d.inner.Flush()
}
func (d *bufDecorator) Unwrap() http.ResponseWriter { return d.inner }

// thinDecorator passes everything through, has no Flush of its own, and offers Unwrap (the Flusher has to be
// found behind it).
type thinDecorator struct{ inner *fakeSink }

func (d *thinDecorator) Header() http.Header         { return d.inner.Header() }
func (d *thinDecorator) WriteHeader(c int)           { d.inner.WriteHeader(c) }
func (d *thinDecorator) Write(p []byte) (int, error) { return d.inner.Write(p) }
func (d *thinDecorator) Unwrap() http.ResponseWriter { return d.inner }

// hC16Stream: in streaming RPCs between streaming-capable protocols each message is forwarded as soon
// as it is complete: (a) when the handler's Write that completes response message k returns, the
// client-side sink already holds k translated frames and was flushed after the last byte; (b) when
// the handler has read request message k, the transcoder has not consumed the client's body beyond
// the end of message k (no read-ahead, hence no waiting for later messages).
func hC16Stream() {
	cfg := &pipeCfg{maxMsg: 4096, kind: fkBidi}
	cfg.client = verifChoose("client", 3) // gRPC, gRPC-Web, Connect streaming
	cfg.svcProtos = []Protocol{pipeProtocols[verifChoose("target", 3)]}
	cfg.clientCodec = CodecProto
	cfg.svcCodecs = []string{CodecProto}
	switch verifChoose("adapter", 3) {
	case 1:
		cfg.svcCodecs = []string{CodecJSON}
	case 2:
		cfg.clientComp = true
	default:
		cfg.clientComp = verifChoose("comp", 2) == 1
		cfg.svcComp = cfg.clientComp
	}
	if pipeIsPassThrough(cfg) {
		return
	}
	p := newPipe(cfg)
	if !p.buildOK {
		return
	}
	target, codec, comp := refNegotiate(cfg)
	// quick: 1-3 rounds of 0-1 byte messages; thorough: 0-2 bytes
	maxRounds, sizes := 3, 2
	if verifTier() == 1 {
		maxRounds, sizes = 3, 3
	}
	nReq := verifChoose("requests", maxRounds) + 1
	reqMsgs := make([]wireMsg, nReq)
	frameEnd := make([]int, nReq)
	var stream []byte
	for i := range reqMsgs {
		reqMsgs[i].abstract = nondetBytes("req", verifChoose("req.size", sizes))
		reqMsgs[i].compressed = cfg.clientComp && verifChoose("req.flag", 2) == 1
		fl := byte(0)
		if reqMsgs[i].compressed {
			fl = 1
		}
		stream = appendFrame(stream, fl, encodeMsg(cfg.clientCodec, reqMsgs[i]))
		frameEnd[i] = len(stream)
	}
	nResp := verifChoose("responses", maxRounds) + 1
	respMsgs := make([]wireMsg, nResp)
	for i := range respMsgs {
		respMsgs[i].abstract = nondetBytes("resp", verifChoose("resp.size", sizes))
	}
	sink := p.sink
	body := p.body
	ok := true
	// shape of the response path: 0 plain sink, 1 buffering decorator, 2 pass-through decorator,
	// 3 plain sink with the handler writing every frame in two pieces
	shape := verifChoose("writer", 4)
	splitWrites := shape == 3
	bigReads := verifChoose("handlerReads", 2) == 1
	var acc []byte
	p.tr.methods[pipePath].handler = http.HandlerFunc(func(w http.ResponseWriter, r *http.Request) {
		// ping-pong: read one request message, write one response message, ...
		switch target {
		case ProtocolGRPC:
			w.Header().Set("Content-Type", "application/grpc+"+codec)
		case ProtocolGRPCWeb:
			w.Header().Set("Content-Type", "application/grpc-web+"+codec)
		default:
			w.Header().Set("Content-Type", "application/connect+"+codec)
		}
		rounds := nReq
		if nResp > rounds {
			rounds = nResp
		}
		for k := 0; k < rounds; k++ {
			if k < nReq {
				// the client has sent message k and waits for the reply before it sends anything more
				body.gated, body.avail = true, frameEnd[k]
				var env [5]byte
				var payload []byte
				if bigReads {
					// a handler that reads into a large buffer (grpc-go's transport, a reverse proxy) and cuts the
					// frames out of what it has got
					for len(acc) < 5 || len(acc) < 5+int(refBE32(acc[1:5])) {
						buf := make([]byte, 16)
						n, err := r.Body.Read(buf)
						acc = append(acc, buf[:n]...)
						if err != nil || (n == 0 && len(acc) > 64) {
							ok = false
							return
						}
					}
					copy(env[:], acc[:5])
					payload = acc[5 : 5+int(refBE32(env[1:]))]
					acc = acc[5+len(payload):]
				} else {
					if _, err := io.ReadFull(r.Body, env[:]); err != nil {
						ok = false
						return
					}
					payload = make([]byte, int(refBE32(env[1:])))
					if _, err := io.ReadFull(r.Body, payload); err != nil {
						ok = false
						return
					}
				}
				verifAssert(body.blocked == 0, "C16: delivering request message k never waits for bytes the client sends only after the reply")
				m, dec := refDecodeMsg(codec, env[0] == 1 && comp, payload)
				verifAssert(dec && bytesEq(m, reqMsgs[k].abstract), "C16: request message k delivered intact")
				verifAssert(body.pos <= frameEnd[k], "C16: no read-ahead past the request message being delivered")
			}
			if k < nResp {
				before := len(sink.body)
				frame := appendFrame(nil, 0, encodeMsg(codec, respMsgs[k]))
				if splitWrites && len(frame) > 6 {
					// the handler (or a proxy in front of it) hands the frame over in two pieces
					w.Write(frame[:6])
					w.Write(frame[6:])
				} else {
					w.Write(frame)
				}
				frames, complete := refSplitFrames(sink.body)
				verifAssert(sink.heads == 1, "C16: headers sent no later than the first message")
				verifAssert(complete && len(frames) == k+1, "C16: response message k forwarded as soon as it is complete")
				verifAssert(len(sink.flushes) > 0 && sink.flushes[len(sink.flushes)-1] == len(sink.body) && len(sink.body) > before, "C16: flushed after the message's last byte")
			}
		}
		body.gated = false // the client has all its replies and ends its side
		// end of stream
		switch target {
		case ProtocolGRPC:
			w.Header().Set(http.TrailerPrefix+"Grpc-Status", "0")
		case ProtocolGRPCWeb:
			w.Write(appendFrame(nil, 0x80, []byte("grpc-status: 0\r\n")))
		default:
			w.Write(appendFrame(nil, 2, []byte("{}")))
		}
	})
	p.req = buildClientRequest(cfg, nil, p.body)
	p.body.data = stream
	// the ResponseWriter the transcoder is given: the sink itself or a middleware's decorator around it
	var writer http.ResponseWriter = p.sink
	var buffered *bufDecorator
	switch shape {
	case 1:
		buffered = &bufDecorator{inner: p.sink}
		writer = buffered
	case 2:
		writer = &thinDecorator{inner: p.sink}
	}
	p.tr.ServeHTTP(writer, p.req)
	if buffered != nil {
		buffered.Flush() // the middleware flushes what is left when the handler returns
	}
	out := refParseClientResponse(cfg, p.sink, true)
	verifObsBytes("client-body", p.sink.body)
	verifReach("ping-pong-completed")
	verifAssert(ok, "C16: every request message could be read when expected")
	verifAssert(out.valid && out.code == 0, "C16: stream completes successfully")
	verifAssert(sameMsgs(out.msgs, respMsgs), "C16: all response messages delivered in order")
}
