package vanguard

var pipeProtocols = [4]Protocol{ProtocolConnect, ProtocolGRPC, ProtocolGRPCWeb, ProtocolREST}

// The thorough tier of the pipeline harnesses is the union of three slices (crossing all of them at once does
// not finish): 0 = wide configurations (multi-protocol and multi-codec services) with the quick message
// space; 1 = quick configurations with a deep request side (0-3 messages of 0-2 bytes, every flag);
// 2 = quick configurations with a deep response side.
var pipeThoroughSlice int

// pipeSliceCount: how many slices the harness being run distinguishes (hC03Pipe adds a fourth: every error
// code and several error messages on quick configurations and messages)
var pipeSliceCount = 3

const (
	sliceWideCfg = iota
	sliceDeepReq
	sliceDeepResp
	sliceDeepScript
)

func wideCfg() bool { return verifTier() == 1 && pipeThoroughSlice == sliceWideCfg }

// pickPipeCfg forks over the configuration space. Quick: single-protocol/-codec services (every
// client form x target protocol x same/different codec x client/service compression);
// thorough (slice 0) adds multi-protocol and multi-codec services.
func pickPipeCfg() (*pipeCfg, bool) {
	if verifTier() == 1 {
		pipeThoroughSlice = verifChoose("thoroughSlice", pipeSliceCount)
	}
	return pickPipeCfgSlice()
}

func pickPipeCfgSlice() (*pipeCfg, bool) {
	cfg := &pipeCfg{maxMsg: 4096}
	cfg.client = verifChoose("client", 6)
	if wideCfg() {
		set := verifChoose("protocols", 15) + 1
		for i, p := range pipeProtocols {
			if set&(1<<i) != 0 {
				cfg.svcProtos = append(cfg.svcProtos, p)
			}
		}
	} else {
		cfg.svcProtos = []Protocol{pipeProtocols[verifChoose("target", 4)]}
	}
	unaryClient := cfg.client == cfConnectUnary || cfg.client == cfConnectGet || cfg.client == cfREST
	if unaryClient {
		cfg.kind = fkUnary
	} else if verifChoose("kind", 2) == 1 {
		cfg.kind = fkBidi
	}
	cfg.clientCodec = CodecProto
	if cfg.client == cfREST || verifChoose("clientCodec", 2) == 1 {
		cfg.clientCodec = CodecJSON
	}
	nc := 2
	if wideCfg() {
		nc = 4
	}
	switch verifChoose("svcCodecs", nc) {
	case 0:
		cfg.svcCodecs = []string{CodecProto}
	case 1:
		cfg.svcCodecs = []string{CodecJSON}
	case 2:
		cfg.svcCodecs = []string{CodecProto, CodecJSON}
	default:
		cfg.svcCodecs = []string{CodecJSON, CodecProto}
	}
	cfg.clientComp = verifChoose("clientComp", 2) == 1
	cfg.svcComp = verifChoose("svcComp", 2) == 1
	if cfg.client == cfConnectGet {
		cfg.idem, cfg.hasIdem = 1, true // NO_SIDE_EFFECTS
	}
	target, _, _ := refNegotiate(cfg)
	if target == ProtocolREST && cfg.kind != fkUnary {
		return nil, false // REST targets only serve unary methods here
	}
	return cfg, true
}

// pickAdapterCfg: a smaller configuration family that still selects every adapter path: client form x
// single target protocol x method kind x {re-framing only, re-encoding (codec differs), re-compression
// (client compressed, service without compression)}.
func pickAdapterCfg() (*pipeCfg, bool) {
	if verifTier() == 1 {
		// thorough: the wide configuration space (harnesses using this family fix their messages themselves)
		pipeThoroughSlice = sliceWideCfg
		return pickPipeCfgSlice()
	}
	return pickAdapterCfgNarrow()
}

// pickAdapterCfgNarrow: the adapter family at every tier (harnesses whose own dimensions are large).
func pickAdapterCfgNarrow() (*pipeCfg, bool) {
	cfg := &pipeCfg{maxMsg: 4096}
	cfg.client = verifChoose("client", 6)
	cfg.svcProtos = []Protocol{pipeProtocols[verifChoose("target", 4)]}
	unaryClient := cfg.client == cfConnectUnary || cfg.client == cfConnectGet || cfg.client == cfREST
	if unaryClient {
		cfg.kind = fkUnary
	} else if verifChoose("kind", 2) == 1 {
		cfg.kind = fkBidi
	}
	cfg.clientCodec = CodecProto
	if cfg.client == cfREST {
		cfg.clientCodec = CodecJSON
	}
	cfg.svcCodecs = []string{cfg.clientCodec}
	switch verifChoose("adapter", 3) {
	case 1: // re-encode
		if cfg.clientCodec == CodecProto {
			cfg.svcCodecs = []string{CodecJSON}
		} else {
			cfg.svcCodecs = []string{CodecProto}
		}
	case 2: // de-compress
		cfg.clientComp = true
	default: // re-frame only, compression kept
		cfg.clientComp = verifChoose("comp", 2) == 1
		cfg.svcComp = cfg.clientComp
	}
	if cfg.client == cfConnectGet {
		cfg.idem, cfg.hasIdem = 1, true
	}
	target, _, _ := refNegotiate(cfg)
	if target == ProtocolREST && cfg.kind != fkUnary {
		return nil, false
	}
	return cfg, true
}

// pickMsgs: 0..maxF messages with symbolic content; per-message compressed flag forked when the
// stream declared a compression (the dimension real clients never vary).
// unaryKindNoMessage: harnesses that set it also generate unary calls whose enveloped client sends no message at all
var unaryKindNoMessage bool

func pickMsgs(name string, enveloped bool, declaredComp bool, unaryKind bool) []wireMsg {
	maxF, maxP := 2, 1
	deep := verifTier() == 1 && ((pipeThoroughSlice == sliceDeepReq && name == "req") || (pipeThoroughSlice == sliceDeepResp && name == "resp"))
	if deep {
		maxF, maxP = 3, 2
	}
	n := 1
	if enveloped && !unaryKind {
		n = verifChoose(name+".count", maxF+1)
	} else if enveloped && unaryKindNoMessage && name == "req" && verifChoose(name+".none", 2) == 1 {
		n = 0 // an enveloped client that ends its stream without the one message a unary method takes
	}
	msgs := make([]wireMsg, n)
	for i := range msgs {
		// sizes include the empty message; quick fixes the two-message shape to (non-empty, empty)
		var p int
		switch {
		case deep || n == 1:
			p = verifChoose(name+".size", maxP+1)
		case i == 0:
			p = 1
		}
		msgs[i].abstract = nondetBytes(name, p)
		if declaredComp && enveloped {
			msgs[i].compressed = verifChoose(name+".flag", 2) == 1
		}
	}
	return msgs
}

func pipeIsPassThrough(cfg *pipeCfg) bool {
	target, codec, comp := refNegotiate(cfg)
	return target == clientProtocolOf(cfg.client) && codec == cfg.clientCodec && comp == cfg.clientComp
}

// hC01Pipe: messages arrive intact in both directions for well-formed RPCs.
func hC01Pipe() {
	unaryKindNoMessage = true
	defer func() { unaryKindNoMessage = false }() // (the native twin runs many cases in one process)
	cfg, ok := pickPipeCfg()
	if !ok {
		return
	}
	p := newPipe(cfg)
	verifAssert(p.buildOK, "configuration accepted")
	if !p.buildOK {
		return
	}
	target, codec, comp := refNegotiate(cfg)
	unaryKind := cfg.kind == fkUnary
	// quick varies one direction at a time (the other carries one fixed message); thorough crosses them
	targetEnveloped := target == ProtocolGRPC || target == ProtocolGRPCWeb || (target == ProtocolConnect && !unaryKind)
	varyReq, varyResp := true, true
	if verifTier() == 0 {
		varyReq = verifChoose("direction", 2) == 0
		varyResp = !varyReq
	}
	reqMsgs := []wireMsg{{abstract: []byte{'q'}}}
	if varyReq {
		reqMsgs = pickMsgs("req", clientEnveloped(cfg.client), cfg.clientComp, unaryKind)
	}
	backendComp := cfg.svcComp && varyResp && verifChoose("respComp", 2) == 1
	respMsgs := []wireMsg{{abstract: []byte{'r'}}}
	if varyResp {
		respMsgs = pickMsgs("resp", targetEnveloped, backendComp, unaryKind)
	}
	p.backend.script = &respScript{msgs: respMsgs, comp: backendComp}
	p.serve(reqMsgs)

	out := refParseClientResponse(cfg, p.sink, p.backend.rec.calls > 0)
	verifObsInt("calls", int64(p.backend.rec.calls))
	verifObsBytes("backend-body", p.backend.rec.body)
	verifObsInt("status", int64(p.sink.status))
	if out.valid && out.code == 0 {
		verifObsBytes("client-body", p.sink.body) // error texts come from library messages the models do not reproduce
	}
	verifObsInt("client-code", int64(out.code))
	if pipeIsPassThrough(cfg) {
		verifReach("pass-through")
	}
	if !out.valid || out.code != 0 {
		verifReach("client-sees-failure")
		return
	}
	verifReach("client-sees-success")
	verifAssert(p.backend.rec.calls == 1, "C01: a successful RPC reached the backend exactly once")
	if p.backend.rec.calls != 1 {
		return
	}
	got, parsed := refParseBackendBody(target, unaryKind, codec, comp, p.backend.rec.body)
	if target == ProtocolConnect && unaryKind && p.backend.rec.method == "GET" {
		verifOutside("Connect GET towards the backend is decided in C19")
	}
	verifAssert(parsed, "C01: backend received a decodable request stream")
	if parsed {
		verifAssert(sameMsgs(got, reqMsgs), "C01: backend observed exactly the request messages the client sent")
	}
	verifAssert(sameMsgs(out.msgs, respMsgs), "C01: client observed exactly the response messages the handler produced")
}
