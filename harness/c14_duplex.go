package vanguard

import (
	"net/http"
)

// hC14Duplex: one bidirectional stream whose handler drives its two sides from two goroutines: W writes
// response messages, R reads the request body. The schedules modelled are the ones in which one of the two is
// blocked in the transport while the other runs a whole step: W is blocked inside a Write of the client's
// connection (flow control, a slow client) at the start of the k-th Write the transcoder issues, and R reads the
// request to its end right then - a further valid message, a clean end, a malformed envelope or a transport
// error. Whatever R runs into, the client must get a response that is valid in its protocol, with the response
// messages W produced intact and nothing after the end of the stream; and what R and W each observe must be
// what they observe when R runs before W starts or after W has finished (the two atomic schedules).
//
// Sequential model (no schedule enumeration inside the transcoder's own code): the transcoder's response path
// takes no lock that R would have to wait for; if it took one, R's step inside the hook would stop at it and the
// path would end inconclusive, never as a violation.
func hC14Duplex() {
	cfg := &pipeCfg{maxMsg: 64, kind: fkBidi, clientCodec: CodecProto, svcCodecs: []string{CodecProto}}
	cfg.client = []int{cfGRPC, cfGRPCWeb, cfConnectStream}[verifChoose("client", 3)]
	cfg.svcProtos = []Protocol{pipeProtocols[verifChoose("target", 3)]}
	if verifChoose("otherCodec", 2) == 1 {
		cfg.svcCodecs = []string{CodecJSON}
	}
	if pipeIsPassThrough(cfg) {
		return
	}
	// what the client sends after its first message: 0 a second valid message then the end, 1 the end,
	// 2 an envelope with invalid flags, 3 a transport error
	reqTail := verifChoose("requestTail", 4)
	first := appendFrame(nil, 0, encodeMsg(cfg.clientCodec, wireMsg{abstract: []byte{'a'}}))
	stream := append([]byte{}, first...)
	switch reqTail {
	case 0:
		stream = appendFrame(stream, 0, encodeMsg(cfg.clientCodec, wireMsg{abstract: []byte{'b'}}))
	case 2:
		stream = append(stream, 0x7f, 0, 0, 0, 0)
	}
	// when R runs: at the start of the k-th Write on the client's connection (k = 0,1,2), or (3) before W
	// starts, or (4) after W has finished - the last two are the atomic schedules
	when := verifChoose("readerRunsAt", 5)

	run := func(when int) (out clientOutcome, sinkBody []byte, rBody []byte, rErr bool, ok bool) {
		p := newPipe(cfg)
		if !p.buildOK {
			return
		}
		target, codec, _ := refNegotiate(cfg)
		p.body.failEnd = reqTail == 3
		var readerDone bool
		var req *http.Request
		readerStep := func() {
			if readerDone {
				return
			}
			readerDone = true
			b, err := readAllSized(req.Body, 16, 100)
			rBody, rErr = b, err != nil
		}
		writes := 0
		p.sink.onWrite = func() {
			if writes == when {
				readerStep()
			}
			writes++
		}
		p.tr.methods[pipePath].handler = http.HandlerFunc(func(w http.ResponseWriter, r *http.Request) {
			req = r
			if when == 3 {
				readerStep()
			}
			switch target {
			case ProtocolGRPC:
				w.Header().Set("Content-Type", "application/grpc+"+codec)
			case ProtocolGRPCWeb:
				w.Header().Set("Content-Type", "application/grpc-web+"+codec)
			default:
				w.Header().Set("Content-Type", "application/connect+"+codec)
			}
			w.Write(appendFrame(nil, 0, encodeMsg(codec, wireMsg{abstract: []byte{'r'}})))
			readerStep() // (if the chosen Write never happened, R runs after W's message)
			switch target {
			case ProtocolGRPC:
				w.Header().Set(http.TrailerPrefix+"Grpc-Status", "0")
			case ProtocolGRPCWeb:
				w.Write(appendFrame(nil, 0x80, []byte("grpc-status: 0\r\n")))
			default:
				w.Write(appendFrame(nil, 2, []byte("{}")))
			}
		})
		p.req = buildClientRequest(cfg, nil, p.body)
		p.body.data = stream
		p.tr.ServeHTTP(p.sink, p.req)
		out = refParseClientResponse(cfg, p.sink, true)
		return out, p.sink.body, rBody, rErr, true
	}

	out, body, rBody, rErr, ok := run(when)
	if !ok {
		return
	}
	verifObsBytes("client-body", body)
	verifObsBytes("reader-saw", rBody)
	verifObsBool("reader-failed", rErr)
	verifObsInt("client-code", int64(out.code))
	verifReach("duplex-served")
	verifAssert(out.valid, "C14: whenever the request side runs into the end or a fault of the request while a response message is being written, the client still gets a valid response (the message intact, one end of stream, nothing after it)")
	for _, m := range out.msgs {
		verifAssert(bytesEq(m, []byte{'r'}), "C14: a response message delivered while the request side was active is the handler's")
	}
	if when < 3 {
		// the two atomic schedules: R before W starts, R after W has finished
		before, _, soloBody, soloErr, _ := run(3)
		after, _, _, _, _ := run(4)
		verifAssert(bytesEq(rBody, soloBody) && rErr == soloErr, "C14: what the reader goroutine reads does not depend on what the writer goroutine is doing")
		if out.valid && before.valid && after.valid {
			verifAssert(out.code == before.code || out.code == after.code, "C14: the outcome the client sees is the one of an atomic schedule (request side first, or response side first)")
		}
	}
}
