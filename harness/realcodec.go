package vanguard

// The real ProtoCodec / JSONCodec wrappers (codec.go) on one real generated message type,
// google.protobuf.BytesValue. proto.Marshal/Unmarshal and protojson for that single type are modelled
// in Go below (wire format: field 1, length-delimited; JSON: a base64 string); the native twin runs the
// real protobuf-go on the same inputs and the translator validation compares the two.

import (
	"bytes"
	"encoding/base64"
	"errors"
	"net/http"

	"google.golang.org/protobuf/proto"
	"google.golang.org/protobuf/reflect/protoreflect"
	"google.golang.org/protobuf/types/known/wrapperspb"
)

type bvMsg struct {
	protoreflect.Message
	m *wrapperspb.BytesValue
}

func (b bvMsg) Interface() protoreflect.ProtoMessage { return b.m }

type bvType struct {
	protoreflect.MessageType
}

func (bvType) New() protoreflect.Message { return bvMsg{m: &wrapperspb.BytesValue{}} }

type bvResolver struct{ fakeResolver }

func (r *bvResolver) FindMessageByName(name protoreflect.FullName) (protoreflect.MessageType, error) {
	return bvType{}, nil
}

var errModelProto = errors.New("proto: cannot parse invalid wire-format data")

func verifModel_google_golang_org_protobuf_proto_UnmarshalOptions_Unmarshal(o proto.UnmarshalOptions, b []byte, m proto.Message) error {
	bv, ok := m.(*wrapperspb.BytesValue)
	if !ok {
		verifOutside("proto.Unmarshal (protobuf reflection) is outside the encoding")
	}
	if !o.Merge {
		bv.Value = nil
	}
	for len(b) > 0 {
		if b[0] != 0x0A {
			verifOutside("proto wire data other than field 1 of BytesValue")
		}
		if len(b) < 2 {
			return errModelProto
		}
		n := int(b[1])
		if n >= 0x80 {
			verifOutside("multi-byte length varint")
		}
		if len(b)-2 < n {
			return errModelProto
		}
		bv.Value = append([]byte{}, b[2:2+n]...)
		b = b[2+n:]
	}
	return nil
}

func verifModel_google_golang_org_protobuf_proto_MarshalOptions_MarshalAppend(o proto.MarshalOptions, b []byte, m proto.Message) ([]byte, error) {
	bv, ok := m.(*wrapperspb.BytesValue)
	if !ok {
		verifOutside("proto.Marshal (protobuf reflection) is outside the encoding")
	}
	if len(bv.Value) == 0 {
		return b, nil
	}
	if len(bv.Value) >= 0x80 {
		verifOutside("multi-byte length varint")
	}
	b = append(b, 0x0A, byte(len(bv.Value)))
	return append(b, bv.Value...), nil
}

func bvJSONMarshal(b []byte, bv *wrapperspb.BytesValue) []byte {
	b = append(b, '"')
	enc := make([]byte, base64.StdEncoding.EncodedLen(len(bv.Value)))
	base64.StdEncoding.Encode(enc, bv.Value)
	b = append(b, enc...)
	return append(b, '"')
}

var errModelProtoJSON = errors.New("proto: syntax error")

func bvJSONUnmarshal(data []byte, bv *wrapperspb.BytesValue) error {
	if len(data) < 2 || data[0] != '"' || data[len(data)-1] != '"' {
		if len(data) == 0 {
			return errModelProtoJSON
		}
		verifOutside("JSON other than one plain string for BytesValue")
	}
	s := string(data[1 : len(data)-1])
	enc := base64.StdEncoding
	for i := 0; i < len(s); i++ {
		c := s[i]
		if c == '-' || c == '_' {
			enc = base64.URLEncoding
		}
		if c == '"' || c == '\\' || c < ' ' || c > '~' {
			verifOutside("JSON string with escapes")
		}
	}
	if len(s)%4 != 0 {
		enc = enc.WithPadding(base64.NoPadding)
	}
	v, err := enc.DecodeString(s)
	if err != nil {
		return errModelProtoJSON
	}
	bv.Value = v
	return nil
}

// realCodecMode is set by harnesses that run the real codecs on BytesValue; the protojson models then
// apply (otherwise they are plain cuts).
func protojsonBV(m proto.Message) (*wrapperspb.BytesValue, bool) {
	bv, ok := m.(*wrapperspb.BytesValue)
	return bv, ok
}

// json.Compact on the canonical single-string documents used here is the identity.
func verifModel_encoding_json_Compact(dst *bytes.Buffer, src []byte) error {
	for _, c := range src {
		if c == ' ' || c == '\t' || c == '\n' || c == '\r' {
			verifOutside("json.Compact on input containing whitespace")
		}
	}
	dst.Write(src)
	return nil
}

// ---- harness ---------------------------------------------------------------------------------

func bvProtoWire(v []byte) []byte {
	if len(v) == 0 {
		return nil
	}
	return append([]byte{0x0A, byte(len(v))}, v...)
}

func bvJSONWire(v []byte) []byte {
	return bvJSONMarshal(nil, &wrapperspb.BytesValue{Value: v})
}

func bvDecode(json bool, wire []byte) ([]byte, bool) {
	if !json {
		if len(wire) == 0 {
			return nil, true
		}
		if len(wire) < 2 || wire[0] != 0x0A || int(wire[1]) != len(wire)-2 {
			return nil, false
		}
		return wire[2:], true
	}
	if len(wire) < 2 || wire[0] != '"' || wire[len(wire)-1] != '"' {
		return nil, false
	}
	v, err := base64.StdEncoding.DecodeString(string(wire[1 : len(wire)-1]))
	return v, err == nil
}

// hC01RealCodec: the real ProtoCodec and JSONCodec (codec.go) re-encode streams of BytesValue messages,
// including an empty message after a non-empty one, in both directions.
func hC01RealCodec() {
	clientJSON := verifChoose("clientJSON", 2) == 1
	clientCodec, svcCodec := CodecProto, CodecJSON
	if clientJSON {
		clientCodec, svcCodec = CodecJSON, CodecProto
	}
	target := []Protocol{ProtocolGRPC, ProtocolConnect}[verifChoose("target", 2)]
	svc := newFakeService(pipeSvc)
	svc.addMethod(pipeMethod, fkBidi, 0, false)
	rec := &backendRecord{}
	maxSize := 1
	if verifTier() == 1 {
		maxSize = 2
	}
	nResp := verifChoose("responses", 3)
	respVals := make([][]byte, nResp)
	for i := range respVals {
		respVals[i] = nondetBytes("resp", verifChoose("resp.size", maxSize+1))
	}
	handler := http.HandlerFunc(func(w http.ResponseWriter, r *http.Request) {
		rec.calls++
		rec.body, rec.readErr = readAllSized(r.Body, 16, 100)
		if target == ProtocolGRPC {
			w.Header().Set("Content-Type", "application/grpc+"+svcCodec)
		} else {
			w.Header().Set("Content-Type", "application/connect+"+svcCodec)
		}
		w.WriteHeader(200)
		for _, v := range respVals {
			wire := bvProtoWire(v)
			if svcCodec == CodecJSON {
				wire = bvJSONWire(v)
			}
			w.Write(appendFrame(nil, 0, wire))
		}
		if target == ProtocolGRPC {
			w.Header().Set(http.TrailerPrefix+"Grpc-Status", "0")
		} else {
			w.Write(appendFrame(nil, 2, []byte("{}")))
		}
	})
	service := &Service{schema: svc, handler: handler, opts: []ServiceOption{
		WithTypeResolver(&bvResolver{}), WithTargetProtocols(target), WithTargetCodecs(svcCodec), WithNoTargetCompression(), WithMaxMessageBufferBytes(256)}}
	tr, err := NewTranscoder([]*Service{service}) // the real default codecs
	verifAssert(err == nil, "configuration accepted")
	if err != nil {
		return
	}
	nReq := verifChoose("requests", 3)
	reqVals := make([][]byte, nReq)
	var stream []byte
	for i := range reqVals {
		reqVals[i] = nondetBytes("req", verifChoose("req.size", maxSize+1))
		wire := bvProtoWire(reqVals[i])
		if clientJSON {
			wire = bvJSONWire(reqVals[i])
		}
		stream = appendFrame(stream, 0, wire)
	}
	cfg := &pipeCfg{client: cfGRPCWeb, clientCodec: clientCodec, kind: fkBidi}
	body := &fakeBody{}
	req := buildClientRequest(cfg, nil, body)
	body.data = stream
	sink := newFakeSink()
	tr.ServeHTTP(sink, req)
	verifObsBytes("backend-body", rec.body)
	verifObsBytes("client-body", sink.body)
	verifReach("served")
	verifAssert(rec.calls == 1 && rec.readErr == nil, "C01: request stream delivered to the backend")
	frames, complete := refSplitFrames(rec.body)
	verifAssert(complete && len(frames) == nReq, "C01: backend observed as many request messages as the client sent")
	if complete && len(frames) == nReq {
		for i, f := range frames {
			v, ok := bvDecode(svcCodec == CodecJSON, f.payload)
			verifAssert(ok && bytesEq(v, reqVals[i]), "C01: backend observed exactly the request messages the client sent")
		}
	}
	cframes, ccomplete := refSplitFrames(sink.body)
	verifAssert(ccomplete && len(cframes) == nResp+1, "C01: client observed as many response messages as the handler produced")
	if ccomplete && len(cframes) == nResp+1 {
		for i := 0; i < nResp; i++ {
			v, ok := bvDecode(clientJSON, cframes[i].payload)
			verifAssert(ok && bytesEq(v, respVals[i]), "C01: client observed exactly the response messages the handler produced")
		}
	}
}
