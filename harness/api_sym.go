package vanguard

// Symbolic-engine view of the harness API: bodyless declarations intercepted by vsym.
// The native twin (api_native.go) gives them bodies that read a replay file.

func verifNondetByte(name string) byte
func verifNondetUint32(name string) uint32
func verifNondetInt64(name string) int64
func verifNondetBool(name string) bool
func verifChoose(name string, n int) int
func verifAssume(c bool)
func verifAssert(c bool, label string)
func verifReach(label string)
func verifOutside(reason string)
func verifTier() int
func verifObsBytes(label string, b []byte)
func verifObsStr(label string, s string)
func verifObsInt(label string, v int64)
func verifObsBool(label string, v bool)
func verifPoolMode(mode int)
func verifFixedMapOrder(on bool)
func verifConcretize(x int) int
func verifGhostCount(what string) int
