package vanguard

import (
	"bytes"
	"net/http"
	"strconv"
)

// pickScript forks over backend behaviours. kind:
//
//	0 success with messages          1 error end after k messages (symbolic code 1..20, 1-byte message)
//	2 trailers-only error (gRPC family)  3 handler returns without writing anything
//	4 bare HTTP error status (symbolic, no RPC status)
//	5 un-enveloped backend: one complete message, then (second Write) data that exceeds the size limit
func pickScript(target Protocol, unaryKind bool, svcComp bool) (*respScript, int) {
	enveloped := target == ProtocolGRPC || target == ProtocolGRPCWeb || (target == ProtocolConnect && !unaryKind)
	s := &respScript{}
	kind := verifChoose("script", 6)
	s.comp = svcComp && verifChoose("respComp", 2) == 1
	switch kind {
	case 0:
		s.msgs = pickMsgs("resp", enveloped, s.comp, unaryKind)
		if !enveloped {
			s.declareLen = verifChoose("declareLen", 2) == 1
		}
	case 1, 2:
		if verifTier() == 1 && pipeThoroughSlice == sliceDeepScript {
			s.errCode = verifNondetUint32("code")
			verifAssume(s.errCode >= 1 && s.errCode <= 20)
		} else {
			s.errCode = [3]uint32{1, 16, 17}[verifChoose("code", 3)]
		}
		s.errMsg = "Zz"
		if d := verifChoose("details", 3); d >= 1 {
			// two details; the second one's bytes encode to base64 with '+' and '/'
			s.details = []refDetail{{typ: "p.D", val: []byte{'v'}}, {typ: "p.E", val: []byte{0xfb, 0xff}}}
			s.padDetails = d == 2 // (gRPC family: the binary trailer in padded base64)
		}
		if verifTier() == 1 && pipeThoroughSlice == sliceDeepScript {
			s.errMsg = [3]string{"m", "Zz", "~"}[verifChoose("errmsg", 3)]
		}
		if kind == 1 && enveloped {
			s.msgs = pickMsgs("resp", enveloped, s.comp, unaryKind)
			s.errAfter = len(s.msgs)
		}
		if kind == 2 {
			if target != ProtocolGRPC && target != ProtocolGRPCWeb {
				return nil, kind
			}
			s.trailersOnly = true
			s.declareLen = verifChoose("declareLen", 2) == 1 // "Content-Length: 0" next to the trailers-only status
		}
	case 3:
		return nil, kind
	case 5:
		// (un-enveloped backends) a complete message followed, in a second Write, by data beyond the size limit
		if enveloped {
			return nil, 2 // not applicable: skipped like an inapplicable trailers-only script
		}
	}
	return s, kind
}

var bareStatuses = [10]int{400, 401, 403, 404, 429, 500, 502, 503, 504, 418}

// bareBackend answers with a plain HTTP error (no RPC status, non-RPC body).
type bareBackend struct {
	status     int
	calls      int
	declareLen bool // the error page declares its Content-Length (as net/http and proxies do)
	jsonBody   bool // the error page is a JSON document without any RPC error code ("{}")
	// restError > 0 (REST targets): the body is a google.rpc.Status in JSON, as a REST backend reports its errors:
	// 1 = {"message":"boom"} (no code), 2 = {"code":5,"message":"boom"}, 3 = {"code":0,"message":"boom"}
	restError int
}

func (b *bareBackend) ServeHTTP(w http.ResponseWriter, r *http.Request) {
	b.calls++
	readAllSized(r.Body, 16, 100)
	body := []byte("oops")
	w.Header().Set("Content-Type", "text/plain")
	if b.jsonBody {
		body = []byte("{}")
		w.Header().Set("Content-Type", "application/json")
	}
	if b.restError > 0 {
		body = []byte([]string{`{"message":"boom"}`, `{"code":5,"message":"boom"}`, `{"code":0,"message":"boom"}`}[b.restError-1])
		w.Header().Set("Content-Type", "application/json")
	}
	if b.declareLen {
		w.Header().Set("Content-Length", strconv.Itoa(len(body)))
	}
	w.WriteHeader(b.status)
	w.Write(body)
}

// hC03Pipe: whatever the backend does, the client gets a response that is valid in its own protocol
// with exactly one terminal disposition; error code and message survive (C04).
func hC03Pipe() {
	refStrictCompressed = true // every peer here is well-formed
	defer func() { refStrictCompressed = false }() // (the native twin runs many cases in one process)
	pipeSliceCount = 4
	cfg, ok := pickPipeCfg()
	pipeSliceCount = 3
	if !ok {
		return
	}
	p := newPipe(cfg)
	if !p.buildOK {
		return
	}
	target, _, _ := refNegotiate(cfg)
	unaryKind := cfg.kind == fkUnary
	if pipeIsPassThrough(cfg) {
		return // nothing is transformed: C13
	}
	script, kind := pickScript(target, unaryKind, cfg.svcComp)
	if kind == 2 && script == nil {
		return
	}
	p.backend.script = script
	reqMsgs := []wireMsg{{abstract: []byte{'q'}}} // the request side is fixed here (C01/C02 vary it)
	var bare *bareBackend
	if kind == 4 {
		bare = &bareBackend{status: bareStatuses[verifChoose("status", len(bareStatuses))], declareLen: verifChoose("declareLen", 2) == 1, jsonBody: verifChoose("jsonErrorPage", 2) == 1}
		if target == ProtocolREST {
			bare.restError = verifChoose("restErrorBody", 4)
		}
		p.tr.methods[pipePath].handler = bare
	}
	overLimitCalls := 0
	if kind == 5 {
		p.tr.methods[pipePath].maxMsgBufferBytes = 64
		whole := encodeMsg(p.backend.codec, wireMsg{abstract: []byte{'w'}})
		p.tr.methods[pipePath].handler = http.HandlerFunc(func(w http.ResponseWriter, r *http.Request) {
			overLimitCalls++
			readAllSized(r.Body, 16, 100)
			w.Header().Set("Content-Type", p.backendContentType())
			w.Write(whole)
			w.Write(bytes.Repeat([]byte{'z'}, 70))
		})
	}
	p.serve(reqMsgs)
	out := refParseClientResponse(cfg, p.sink, p.backend.rec.calls > 0 || (bare != nil && bare.calls > 0) || overLimitCalls > 0)
	verifObsInt("status", int64(p.sink.status))
	if out.valid && out.code == 0 {
		verifObsBytes("client-body", p.sink.body) // error texts come from library messages the models do not reproduce
	}
	verifObsInt("client-code", int64(out.code))
	verifObsInt("heads", int64(p.sink.heads))
	verifObsStr("oracle-why", out.why)
	if target == ProtocolConnect && unaryKind && p.backend.rec.method == "GET" {
		verifOutside("Connect GET towards the backend is decided in C19")
	}
	verifReach("response-produced")
	verifAssert(p.sink.heads == 1, "C03: exactly one response head")
	targetEnveloped := target == ProtocolGRPC || target == ProtocolGRPCWeb || (target == ProtocolConnect && !unaryKind)
	if kind == 3 && !targetEnveloped {
		// an empty 200 from an un-enveloped backend is relayed as an empty message: whether that is a
		// valid document is the backend's codec's business (same-codec payloads are not decoded)
		verifReach("backend-silent-unenveloped")
		return
	}
	if cl := p.sink.headSnap.Get("Content-Length"); cl != "" {
		verifAssert(cl == strconv.Itoa(len(p.sink.body)), "C11: a declared Content-Length equals the number of body bytes written")
	}
	verifAssert(out.valid, "C03: response is valid for the client's protocol, with exactly one terminal disposition")
	verifAssert(!out.dupStatus, "C03: no second terminal status after the transcoder ended the RPC")
	if !out.valid {
		return
	}
	if p.backend.rec.calls == 0 && (bare == nil || bare.calls == 0) && overLimitCalls == 0 {
		verifReach("rejected-before-dispatch")
		verifAssert(out.code != 0, "C03: a rejected request is reported as an error")
		return
	}
	switch kind {
	case 0:
		verifReach("backend-success")
		verifAssert(out.code == 0, "C03: success is reported as success")
		verifAssert(sameMsgs(out.msgs, script.msgs), "C03: success carries the handler's messages")
	case 1, 2:
		verifReach("backend-error")
		verifAssert(out.code != 0, "C03: an error end is never reported as success")
		if script.errCode <= 16 {
			if cfg.client == cfREST {
				st, _ := refStatusFromRPC(script.errCode)
				verifAssert(p.sink.status == st, "C04: error code survives")
			} else {
				verifAssert(out.code == script.errCode, "C04: error code survives")
			}
			if cfg.client != cfREST {
				verifAssert(out.hasMsg && out.message == script.errMsg, "C04: error message survives")
				if len(script.details) > 0 {
					verifReach("error-details-checked")
				}
				verifAssert(!out.badDetails && sameDetails(out.details, script.details), "C04: error details survive (types and bytes, in order)")
			}
		} else {
			verifReach("out-of-range-code")
		}
		if clientEnveloped(cfg.client) {
			n := len(script.msgs)
			verifAssert(len(out.msgs) <= n, "C03: no message invented before the error")
		} else {
			verifAssert(len(out.msgs) == 0, "C03: unary error carries no message")
		}
	case 3:
		verifReach("backend-silent")
		// an empty 200 from the backend: for gRPC-family/Connect-stream targets the terminal status is missing => error
		if target == ProtocolGRPC || target == ProtocolGRPCWeb || (target == ProtocolConnect && !unaryKind) {
			verifAssert(out.code != 0, "C09: missing terminal status is not a success")
		}
	case 5:
		verifReach("over-limit-after-message")
		verifAssert(out.code != 0, "C03: a response that outgrows the size limit is not reported as success")
	case 4:
		verifReach("bare-http-error")
		verifAssert(out.code != 0, "C03: bare HTTP failure is an error")
		want := refStatusToRPC(bare.status)
		if bare.restError == 2 {
			// a REST backend's own error document: its code and message are the RPC's outcome
			verifReach("rest-backend-error-document")
			if cfg.client == cfREST {
				verifAssert(p.sink.status == 404, "C04: error code survives")
			} else {
				verifAssert(out.code == 5, "C04: error code survives")
				verifAssert(out.hasMsg && out.message == "boom", "C04: error message survives")
			}
			return
		}
		if cfg.client == cfREST {
			st, _ := refStatusFromRPC(connectCodeU32(want))
			verifAssert(p.sink.status == st, "C04: bare HTTP status maps to the published RPC code")
		} else {
			verifAssert(connectCodeU32(want) == out.code, "C04: bare HTTP status maps to the published RPC code")
		}
	}
}

// hC03UnaryCount: a unary method whose enveloped backend (gRPC, gRPC-Web) answers with two response messages and
// an OK status. A client without envelopes (Connect unary, REST) must not get the two messages run together as
// one successful response body.
func hC03UnaryCount() {
	cfg := &pipeCfg{maxMsg: 64, kind: fkUnary}
	cfg.client = []int{cfConnectUnary, cfREST}[verifChoose("client", 2)]
	cfg.svcProtos = []Protocol{[]Protocol{ProtocolGRPC, ProtocolGRPCWeb}[verifChoose("target", 2)]}
	cfg.clientCodec = CodecJSON
	cfg.svcCodecs = []string{[]string{CodecJSON, CodecProto}[verifChoose("backendCodec", 2)]}
	p := newPipe(cfg)
	if !p.buildOK {
		return
	}
	m1 := wireMsg{abstract: nondetBytes("m1", 1)}
	m2 := wireMsg{abstract: nondetBytes("m2", 1)}
	p.backend.script = &respScript{msgs: []wireMsg{m1, m2}}
	if verifChoose("count", 2) == 1 {
		// ... or with no response message at all (OK status only)
		p.backend.script.msgs = nil
		p.serve([]wireMsg{{abstract: []byte{'q'}}})
		out := refParseClientResponse(cfg, p.sink, p.backend.rec.calls > 0)
		verifObsInt("status", int64(p.sink.status))
		verifObsBytes("client-body", p.sink.body)
		verifObsInt("client-code", int64(out.code))
		verifReach("no-response-message-for-a-unary-method")
		verifAssert(!(out.valid && out.code == 0), "C03: a unary call whose backend sent no response message is not reported as a success")
		verifAssert(p.sink.status != 200 || len(p.sink.body) > 0, "C03: a JSON client is not handed an empty body as a successful response")
		return
	}
	p.serve([]wireMsg{{abstract: []byte{'q'}}})
	out := refParseClientResponse(cfg, p.sink, p.backend.rec.calls > 0)
	verifObsInt("status", int64(p.sink.status))
	verifObsBytes("client-body", p.sink.body)
	verifObsInt("client-code", int64(out.code))
	verifReach("two-response-messages-for-a-unary-method")
	verifAssert(p.backend.rec.calls == 1, "the call is dispatched")
	verifAssert(!(out.valid && out.code == 0), "C03: a unary call whose backend sent two response messages is not reported as a success")
	if p.sink.status == 200 {
		one := bytesEq(p.sink.body, refToyEncode(true, m1.abstract)) || bytesEq(p.sink.body, refToyEncode(true, m2.abstract))
		verifAssert(one, "C03: a unary client is not handed two response messages run together as one body")
	}
}

// hC03LateRequestFault: a handler that answers first and reads its request afterwards (legal for any handler; usual
// for proxies), while the client's request turns out to be faulty behind its first message: a second message for
// a unary method, an envelope with invalid flags, or a cut. The transcoder reports the fault when the handler's
// read runs into it - after the response body was written. Whatever was buffered of the response must then not
// follow the end of the stream: the client gets one valid outcome.
func hC03LateRequestFault() {
	cfg := &pipeCfg{maxMsg: 64, kind: fkUnary, clientCodec: CodecProto}
	cfg.client = []int{cfGRPC, cfGRPCWeb}[verifChoose("client", 2)]
	cfg.svcProtos = []Protocol{[]Protocol{ProtocolConnect, ProtocolGRPC, ProtocolGRPCWeb}[verifChoose("target", 3)]}
	cfg.svcCodecs = []string{[]string{CodecProto, CodecJSON}[verifChoose("otherCodec", 2)]}
	if pipeIsPassThrough(cfg) {
		return
	}
	p := newPipe(cfg)
	if !p.buildOK {
		return
	}
	target, codec, _ := refNegotiate(cfg)
	stream := appendFrame(nil, 0, encodeMsg(cfg.clientCodec, wireMsg{abstract: []byte{'a'}}))
	fault := verifChoose("fault", 4)
	switch fault {
	case 1:
		stream = appendFrame(stream, 0, encodeMsg(cfg.clientCodec, wireMsg{abstract: []byte{'b'}})) // a second message
	case 2:
		stream = append(stream, 0x7f, 0, 0, 0, 0) // invalid flags
	case 3:
		stream = append(stream, 0, 0, 0) // cut inside an envelope
	}
	declareLen := verifChoose("declareLen", 2) == 1
	p.tr.methods[pipePath].handler = http.HandlerFunc(func(w http.ResponseWriter, r *http.Request) {
		w.Header().Set("Content-Type", p.backendContentType())
		payload := encodeMsg(codec, wireMsg{abstract: []byte{'r'}})
		switch target {
		case ProtocolConnect:
			if declareLen {
				w.Header().Set("Content-Length", strconv.Itoa(len(payload)))
			}
			w.Write(payload)
		default:
			w.Write(appendFrame(nil, 0, payload))
		}
		readAllSized(r.Body, 16, 100) // only now does the handler look at its request
		switch target {
		case ProtocolGRPC:
			w.Header().Set(http.TrailerPrefix+"Grpc-Status", "0")
		case ProtocolGRPCWeb:
			w.Write(appendFrame(nil, 0x80, []byte("grpc-status: 0\r\n")))
		}
	})
	p.req = buildClientRequest(cfg, nil, p.body)
	p.body.data = stream
	p.tr.ServeHTTP(p.sink, p.req)
	out := refParseClientResponse(cfg, p.sink, true)
	verifObsInt("client-code", int64(out.code))
	verifObsBytes("client-body", p.sink.body)
	verifObsStr("oracle-why", out.why)
	verifReach("answered-before-reading")
	verifAssert(p.sink.heads == 1, "C03: exactly one response head")
	verifAssert(out.valid, "C03: a request fault discovered after the response body was written still leaves one valid outcome (nothing follows the end of the stream)")
	verifAssert(!out.dupStatus, "C03: no second terminal status")
	for _, m := range out.msgs {
		verifAssert(bytesEq(m, []byte{'r'}), "C03: a response message delivered before the fault is the handler's")
	}
	if fault == 0 {
		verifAssert(out.valid && out.code == 0 && len(out.msgs) == 1, "C03: without a fault the early answer is a success")
	}
}
