package vanguard

import (
	"net/http"
	"time"
)

const refMaxInt64 = uint64(1<<63 - 1)

// refGrpcUnit returns the unit in nanoseconds for a gRPC timeout unit byte (0 = invalid).
func refGrpcUnit(u byte) uint64 {
	switch u {
	case 'H':
		return 3600 * 1000000000
	case 'M':
		return 60 * 1000000000
	case 'S':
		return 1000000000
	case 'm':
		return 1000000
	case 'u':
		return 1000
	case 'n':
		return 1
	}
	return 0
}

// refDigits parses 1..max decimal digits; ok=false if any byte is not a digit or the length is out of range.
func refDigits(b []byte, max int) (uint64, bool) {
	if len(b) == 0 || len(b) > max {
		return 0, false
	}
	var n uint64
	ok := true
	for _, c := range b {
		ok = ok && c >= '0' && c <= '9'
		n = n*10 + uint64(c-'0')
	}
	return n, ok
}

// refGrpcTimeoutNs: value in ns saturated at MaxInt64; valid per "1*8DIGIT unit".
func refGrpcTimeoutNs(h []byte) (ns uint64, valid bool) {
	if len(h) < 2 {
		return 0, false
	}
	unit := refGrpcUnit(h[len(h)-1])
	n, ok := refDigits(h[:len(h)-1], 8)
	if unit == 0 || !ok {
		return 0, false
	}
	if n > refMaxInt64/unit {
		return refMaxInt64, true
	}
	return n * unit, true
}

// refConnectTimeoutNs: "1*10DIGIT" milliseconds, saturated.
func refConnectTimeoutNs(h []byte) (ns uint64, valid bool) {
	n, ok := refDigits(h, 10)
	if !ok {
		return 0, false
	}
	if n > refMaxInt64/1000000 {
		return refMaxInt64, true
	}
	return n * 1000000, true
}

const refPracticalLimitNs = uint64(8) * 3600 * 1000000000 // above this a deadline may be treated as unbounded (grey threshold)

// timeoutTargets lists the non-REST server protocols by index.
func timeoutTarget(i int) serverProtocolHandler {
	switch i {
	case 0:
		return grpcServerProtocol{}
	case 1:
		return grpcWebServerProtocol{}
	case 2:
		return connectStreamServerProtocol{}
	default:
		return connectUnaryServerProtocol{}
	}
}

// checkForwarded asserts the deadline rules for one target protocol.
func checkForwarded(meta requestMeta, clientNs uint64, target int) {
	out := http.Header{}
	timeoutTarget(target).addProtocolRequestHeaders(meta, out)
	g := out.Get("Grpc-Timeout")
	c := out.Get("Connect-Timeout-Ms")
	verifObsStr("grpc-timeout", g)
	verifObsStr("connect-timeout-ms", c)
	if target <= 1 {
		verifAssert(c == "", "no Connect timeout header towards a gRPC target")
		if !meta.hasTimeout {
			verifAssert(g == "", "no timeout in => no timeout out")
			return
		}
		verifAssert(g != "", "timeout conveyed to gRPC target")
		if g == "" {
			return
		}
		got, valid := refGrpcTimeoutNs([]byte(g))
		verifAssert(valid, "produced Grpc-Timeout matches 1*8DIGIT unit")
		verifAssert(got <= clientNs, "deadline never extended")
		unit := refGrpcUnit(g[len(g)-1])
		verifAssert(clientNs-got < unit || got >= refPracticalLimitNs, "shortfall below the chosen unit")
		return
	}
	verifAssert(g == "", "no gRPC timeout header towards a Connect target")
	if !meta.hasTimeout {
		verifAssert(c == "", "no timeout in => no timeout out")
		return
	}
	verifAssert(c != "", "timeout conveyed to Connect target")
	if c == "" {
		return
	}
	got, valid := refConnectTimeoutNs([]byte(c))
	verifAssert(valid, "produced Connect-Timeout-Ms is 1*10DIGIT")
	verifAssert(got <= clientNs, "deadline never extended")
	verifAssert(clientNs-got < 1000000 || got >= refPracticalLimitNs, "shortfall below one millisecond")
}

// hTimeoutGrpcValid: every grammar-valid Grpc-Timeout (1..8 digits x all 256 unit bytes restricted to valid ones)
// is accepted and forwarded to every target without extension.
func hTimeoutGrpcValid() {
	// quick: 8 digits (leading zeros allowed by the grammar, so every value 0..99999999 is covered) and 1 digit;
	// thorough: every digit count 1..8.
	d := 8
	if verifTier() == 1 {
		d = verifChoose("digits", 8) + 1
	} else if verifChoose("digits", 2) == 1 {
		d = 1
	}
	hdr := make([]byte, d+1)
	for i := 0; i < d; i++ {
		hdr[i] = verifNondetByte("digit")
		verifAssume(hdr[i] >= '0' && hdr[i] <= '9')
	}
	hdr[d] = verifNondetByte("unit")
	clientNs, valid := refGrpcTimeoutNs(hdr)
	verifAssume(valid)
	target := verifChoose("target", 4)
	web := target & 1
	if verifTier() == 1 {
		web = verifChoose("web", 2)
	}
	in := http.Header{"Grpc-Timeout": {string(hdr)}, "Content-Type": {"application/grpc"}}
	var meta requestMeta
	var err error
	if web == 1 {
		in.Set("Content-Type", "application/grpc-web")
		meta, err = grpcWebClientProtocol{}.extractProtocolRequestHeaders(nil, in)
	} else {
		meta, err = grpcClientProtocol{}.extractProtocolRequestHeaders(nil, in)
	}
	verifReach("valid-grpc-timeout")
	verifAssert(err == nil, "syntactically valid Grpc-Timeout never rejected")
	if err != nil {
		return
	}
	verifObsBool("hasTimeout", meta.hasTimeout)
	verifObsInt("timeout", int64(meta.timeout))
	verifAssert(meta.hasTimeout || clientNs > refPracticalLimitNs, "only impractically large deadlines may be treated as unbounded")
	_, stillThere := in["Grpc-Timeout"]
	verifAssert(!stillThere, "client timeout header consumed")
	checkForwarded(meta, clientNs, target)
}

// hTimeoutConnectValid: 1..10 digit Connect-Timeout-Ms.
func hTimeoutConnectValid() {
	d := 10
	if verifTier() == 1 {
		d = verifChoose("digits", 10) + 1
	} else if verifChoose("digits", 2) == 1 {
		d = 2
	}
	hdr := make([]byte, d)
	for i := 0; i < d; i++ {
		hdr[i] = verifNondetByte("digit")
		verifAssume(hdr[i] >= '0' && hdr[i] <= '9')
	}
	clientNs, valid := refConnectTimeoutNs(hdr)
	verifAssume(valid)
	form := verifChoose("form", 2)
	in := http.Header{"Connect-Timeout-Ms": {string(hdr)}}
	var meta requestMeta
	var err error
	if form == 0 {
		in.Set("Content-Type", "application/connect+proto")
		meta, err = connectStreamClientProtocol{}.extractProtocolRequestHeaders(nil, in)
	} else {
		in.Set("Content-Type", "application/proto")
		meta, err = connectUnaryPostClientProtocol{}.extractProtocolRequestHeaders(nil, in)
	}
	verifReach("valid-connect-timeout")
	verifAssert(err == nil, "syntactically valid Connect-Timeout-Ms never rejected")
	if err != nil {
		return
	}
	verifObsBool("hasTimeout", meta.hasTimeout)
	verifObsInt("timeout", int64(meta.timeout))
	verifAssert(meta.hasTimeout, "Connect timeout recorded")
	_, stillThere := in["Connect-Timeout-Ms"]
	verifAssert(!stillThere, "client timeout header consumed")
	target := verifChoose("target", 4)
	checkForwarded(meta, clientNs, target)
}

// hTimeoutAbsent: no client timeout header => none towards any target.
func hTimeoutAbsent() {
	form := verifChoose("form", 4)
	in := http.Header{}
	var meta requestMeta
	var err error
	switch form {
	case 0:
		in.Set("Content-Type", "application/grpc")
		meta, err = grpcClientProtocol{}.extractProtocolRequestHeaders(nil, in)
	case 1:
		in.Set("Content-Type", "application/grpc-web+proto")
		meta, err = grpcWebClientProtocol{}.extractProtocolRequestHeaders(nil, in)
	case 2:
		in.Set("Content-Type", "application/connect+proto")
		meta, err = connectStreamClientProtocol{}.extractProtocolRequestHeaders(nil, in)
	default:
		in.Set("Content-Type", "application/proto")
		meta, err = connectUnaryPostClientProtocol{}.extractProtocolRequestHeaders(nil, in)
	}
	verifReach("no-timeout")
	verifAssert(err == nil && !meta.hasTimeout, "request without a timeout has none")
	checkForwarded(meta, 0, verifChoose("target", 4))
}

// refGrpcLiberal: superset of the grammar that an implementation may reasonably tolerate
// (sign prefixes, more digits). Strings outside it are clearly malformed.
func refGrpcClearlyMalformed(h []byte) bool {
	if len(h) < 2 {
		return true // no digits or no unit
	}
	if refGrpcUnit(h[len(h)-1]) == 0 {
		return true
	}
	body := h[:len(h)-1]
	start := 0
	if body[0] == '+' || body[0] == '-' {
		start = 1 // grey: sign prefix
	}
	if start == len(body) {
		return true
	}
	bad := false
	for i := start; i < len(body); i++ {
		if (body[i] < '0' || body[i] > '9') && body[i] != '_' { // '_' is grey (ParseInt base-prefix syntax is not enabled for base 10, but stay liberal)
			bad = true
		}
	}
	return bad
}

// hTimeoutGrpcAnyString: all byte strings up to the bound: valid ones accepted, clearly malformed ones rejected.
func hTimeoutGrpcAnyString() {
	max := 3
	if verifTier() == 1 {
		max = 4
	}
	n := verifChoose("len", max) + 1
	hdr := nondetBytes("b", n)
	in := http.Header{"Grpc-Timeout": {string(hdr)}, "Content-Type": {"application/grpc"}}
	_, err := grpcClientProtocol{}.extractProtocolRequestHeaders(nil, in)
	_, valid := refGrpcTimeoutNs(hdr)
	if valid {
		verifReach("any-valid")
		verifAssert(err == nil, "syntactically valid Grpc-Timeout never rejected")
	} else if refGrpcClearlyMalformed(hdr) {
		verifReach("any-malformed")
		verifAssert(err != nil, "malformed Grpc-Timeout rejected")
	}
}

func refConnectClearlyMalformed(h []byte) bool {
	start := 0
	if len(h) > 0 && (h[0] == '+' || h[0] == '-') {
		start = 1
	}
	if start == len(h) {
		return true
	}
	bad := false
	for i := start; i < len(h); i++ {
		if (h[i] < '0' || h[i] > '9') && h[i] != '_' {
			bad = true
		}
	}
	return bad
}

func hTimeoutConnectAnyString() {
	max := 3
	if verifTier() == 1 {
		max = 4
	}
	n := verifChoose("len", max) + 1
	hdr := nondetBytes("b", n)
	in := http.Header{"Connect-Timeout-Ms": {string(hdr)}, "Content-Type": {"application/connect+proto"}}
	_, err := connectStreamClientProtocol{}.extractProtocolRequestHeaders(nil, in)
	_, valid := refConnectTimeoutNs(hdr)
	if valid {
		verifReach("any-valid")
		verifAssert(err == nil, "syntactically valid Connect-Timeout-Ms never rejected")
	} else if refConnectClearlyMalformed(hdr) {
		verifReach("any-malformed")
		verifAssert(err != nil, "malformed Connect-Timeout-Ms rejected")
	}
}

// hTimeoutGrpcTooLong: the gRPC wire format allows at most 8 digits: a Grpc-Timeout of 9 to 20 digits (every
// digit symbolic) followed by any unit is malformed and must be rejected, never turned into "no deadline".
func hTimeoutGrpcTooLong() {
	n := []int{9, 10, 19, 20}[verifChoose("digits", 4)]
	digits := nondetBytes("digit", n)
	for _, d := range digits {
		verifAssume(d >= '0' && d <= '9')
	}
	unit := "HMSmun"[verifChoose("unit", 6)]
	hdr := append(append([]byte(nil), digits...), unit)
	in := http.Header{"Grpc-Timeout": {string(hdr)}, "Content-Type": {"application/grpc"}}
	_, err := grpcClientProtocol{}.extractProtocolRequestHeaders(nil, in)
	verifObsBool("rejected", err != nil)
	verifReach("too-many-digits")
	verifAssert(err != nil, "Grpc-Timeout with more than 8 digits rejected")
}

// hTimeoutRESTFixed: towards a REST backend (X-Server-Timeout, decimal seconds) for a handful of concrete
// deadlines including zero - floating point formatting is not encoded symbolically, so this slice is by value:
// the header is present whenever the client set a deadline, reads back as a duration, and never exceeds it.
func hTimeoutRESTFixed() {
	durations := []time.Duration{0, time.Nanosecond, time.Millisecond, 1500 * time.Millisecond, time.Second, 90 * time.Minute, 8 * time.Hour,
		1500 * time.Nanosecond, 1999999999 * time.Nanosecond, 2*time.Hour + 999999999*time.Nanosecond} // (values that a fixed number of decimals would round up)
	d := durations[verifChoose("deadline", len(durations))]
	has := verifChoose("hasTimeout", 2) == 1
	out := http.Header{}
	restServerProtocol{}.addProtocolRequestHeaders(requestMeta{codec: CodecJSON, hasTimeout: has, timeout: d}, out)
	vals, present := out["X-Server-Timeout"]
	verifObsBool("present", present)
	verifReach("rest-timeout")
	if !has {
		verifAssert(!present, "no timeout in => no X-Server-Timeout out")
		return
	}
	verifAssert(present && len(vals) == 1 && vals[0] != "", "a client deadline (including an already expired one) is conveyed to a REST backend")
	if !present || len(vals) != 1 || vals[0] == "" {
		return
	}
	verifObsStr("x-server-timeout", vals[0])
	back, err := restDecodeTimeout(vals[0])
	verifAssert(err == nil, "produced X-Server-Timeout reads back")
	verifAssert(back <= d, "deadline never extended")
	verifAssert(d-back < time.Microsecond, "shortfall below one microsecond")
}
