package vanguard

import (
	"strings"
)

func refUnreserved(c byte) bool {
	return (c >= 'a' && c <= 'z') || (c >= 'A' && c <= 'Z') || (c >= '0' && c <= '9') || c == '-' || c == '.' || c == '_' || c == '~'
}

// refSegmentWellFormed: only unreserved bytes and valid %XX escapes.
func refSegmentWellFormed(s string) bool {
	for i := 0; i < len(s); i++ {
		if s[i] == '%' {
			if i+2 >= len(s) || !refIsHex(s[i+1]) || !refIsHex(s[i+2]) {
				return false
			}
			i += 2
			continue
		}
		if !refUnreserved(s[i]) {
			return false
		}
	}
	return true
}

func pathValueLen() int {
	if verifTier() == 1 {
		return 6
	}
	return 4
}

// hPathVarSingle: a single-segment variable value survives encode -> capture for every byte string,
// and the emitted segment is a well-formed URL path segment (no '/', only unreserved bytes and escapes).
func hPathVarSingle() {
	v := string(nondetBytesUpTo("v", pathValueLen()))
	parts := httpSplitVar(v, false)
	verifReach("single")
	verifAssert(len(parts) == 1, "single-segment variable yields one segment")
	if len(parts) != 1 {
		return
	}
	verifObsStr("segment", parts[0])
	verifAssert(refSegmentWellFormed(parts[0]), "emitted segment is well-formed")
	tv := routeTargetVar{pathVariable: pathVariable{start: 0, end: 1}}
	got, err := tv.capture(parts)
	verifAssert(err == nil, "emitted segment can be captured")
	verifAssert(got == v, "single-segment capture inverts encoding")
}

// hPathVarMulti: a multi-segment (**) variable value survives encode -> capture; '/' separates
// segments and a literal "%2F"/"%2f" in the value is the documented exception (kept encoded).
func hPathVarMulti() {
	v := string(nondetBytesUpTo("v", pathValueLen()))
	parts := httpSplitVar(v, true)
	verifReach("multi")
	for _, p := range parts {
		verifAssert(refSegmentWellFormed(p), "emitted segment is well-formed")
	}
	verifObsStr("joined", strings.Join(parts, "/"))
	tv := routeTargetVar{pathVariable: pathVariable{start: 0, end: -1}}
	got, err := tv.capture(parts)
	verifAssert(err == nil, "emitted segments can be captured")
	hasEncodedSlash := false
	for i := 0; i+2 < len(v); i++ {
		if v[i] == '%' && v[i+1] == '2' && (v[i+2] == 'F' || v[i+2] == 'f') {
			hasEncodedSlash = true
		}
	}
	if !hasEncodedSlash {
		verifReach("multi-plain")
		verifAssert(got == v, "multi-segment capture inverts encoding")
	}
}

// hPathUnescape: pathUnescape accepts exactly well-formed escapes, decodes each escape once and
// (multi mode) keeps %2F encoded.
func hPathUnescape() {
	s := nondetBytesUpTo("s", pathValueLen())
	mode := pathEncodeSingle
	if verifChoose("mode", 2) == 1 {
		mode = pathEncodeMulti
	}
	got, err := pathUnescape(string(s), mode)
	if !refPercentWellFormed(s) {
		verifReach("bad-escape")
		verifAssert(err != nil, "malformed escape rejected")
		return
	}
	verifReach("good-escape")
	verifAssert(err == nil, "well-formed escapes accepted")
	var want []byte
	for i := 0; i < len(s); i++ {
		if s[i] != '%' {
			want = append(want, s[i])
			continue
		}
		b := refHexVal(s[i+1])<<4 | refHexVal(s[i+2])
		if mode == pathEncodeMulti && b == '/' {
			want = append(want, '%', '2', 'F')
		} else {
			want = append(want, b)
		}
		i += 2
	}
	verifObsStr("unescaped", got)
	verifAssert(got == string(want), "each escape decoded exactly once (%2F kept in multi mode)")
}
