package vanguard

import (
	"bytes"
	"net/http"
	"net/url"

	"google.golang.org/genproto/googleapis/api/annotations"
)

type probeResult struct {
	calls   int
	body    []byte
	readErr bool
	status  int
	out     []byte
	hdr     http.Header
}

func runProbe(p *pipeRun, cfg *pipeCfg, reqMsgs, respMsgs []wireMsg, respComp bool) probeResult {
	p.backend.rec = backendRecord{}
	p.backend.script = &respScript{msgs: respMsgs, comp: respComp}
	p.sink = newFakeSink()
	p.body = &fakeBody{}
	p.serve(reqMsgs)
	return probeResult{calls: p.backend.rec.calls, body: p.backend.rec.body, readErr: p.backend.rec.readErr != nil,
		status: p.sink.status, out: p.sink.body, hdr: p.sink.hdr}
}

// hC15History: the result of a probe RPC on a transcoder that has already served an earlier (valid or
// hostile) RPC, or whose pools hold dirty objects, equals its result on a freshly built transcoder.
// sync.Pool is modelled as always handing back the most recently released object (the worst case for
// state leaking between RPCs).
func hC15History() {
	cfg := &pipeCfg{maxMsg: 64, kind: fkBidi, client: cfGRPC, clientCodec: CodecProto, failMarshal: true}
	cfg.svcProtos = []Protocol{[]Protocol{ProtocolConnect, ProtocolGRPCWeb, ProtocolGRPC}[verifChoose("target", 3)]}
	// the probe exercises re-encoding and de/re-compression so that pooled buffers and (de)compressors are used
	cfg.svcCodecs = []string{CodecJSON}
	cfg.clientComp = true
	cfg.svcComp = verifChoose("svcComp", 2) == 1
	if verifChoose("unary", 2) == 1 {
		cfg.kind = fkUnary
	}
	reqMsgs := []wireMsg{{abstract: nondetBytes("req", 2), compressed: true}}
	if cfg.kind == fkBidi {
		reqMsgs = append(reqMsgs, wireMsg{abstract: nondetBytes("req", 1)})
	}
	respMsgs := []wireMsg{{abstract: nondetBytes("resp", 2), compressed: cfg.svcComp}}
	for _, m := range append(append([]wireMsg{}, reqMsgs...), respMsgs...) {
		for _, b := range m.abstract {
			verifAssume(b != 0xFF) // (the byte the toy codecs cannot marshal: the probe itself is well-formed)
		}
	}

	// handlers written with connect-go / grpc-go close the request body themselves; plain handlers do not
	closeBody := verifChoose("handlerClosesBody", 2) == 1
	fresh := newPipe(cfg)
	if !fresh.buildOK {
		return
	}
	fresh.backend.closeBody = closeBody
	// a full-duplex handler answers after reading only the start of the request (two RPC stages hold pooled
	// buffers at the same time)
	readFirst := 0
	if cfg.kind == fkBidi && verifChoose("fullDuplex", 2) == 1 {
		readFirst = 6
	}
	fresh.backend.readFirst = readFirst
	want := runProbe(fresh, cfg, reqMsgs, respMsgs, cfg.svcComp)

	used := newPipe(cfg)
	used.backend.closeBody = closeBody
	used.backend.readFirst = readFirst
	// thorough: two earlier RPCs (every ordered pair of history kinds)
	rounds := 1
	if verifTier() == 1 {
		rounds = 2
	}
	for round := 0; round < rounds; round++ {
		c15History(used, cfg, verifChoose("history", 9))
	}

	verifObsBytes("fresh-backend-body", want.body)
	verifObsBytes("fresh-client-body", want.out)
	// the probe is repeated: which pooled object a later RPC is handed depends on how many Gets and Puts
	// came before it, so damage done by the earlier RPC may only surface on the second or third probe
	for i := 0; i < 3; i++ {
		got := runProbe(used, cfg, reqMsgs, respMsgs, cfg.svcComp)
		verifObsBytes("used-backend-body", got.body)
		verifObsBytes("used-client-body", got.out)
		verifReach("probe-after-history")
		verifAssert(bytesEq(want.body, got.body) && bytesEq(want.out, got.out), "C01: a well-formed RPC served after earlier (failed) traffic delivers the same message bytes in both directions")
		verifAssert(want.calls == got.calls, "C15: dispatch independent of earlier traffic")
		verifAssert(bytesEq(want.body, got.body) && want.readErr == got.readErr, "C15: request delivered to the backend independent of earlier traffic")
		verifAssert(want.status == got.status && bytesEq(want.out, got.out), "C15: response independent of earlier traffic")
		verifAssert(headersEqual(want.hdr, got.hdr), "C15: response headers/trailers independent of earlier traffic")
	}
	// sanity: the fresh probe itself succeeds (otherwise the comparison says little)
	out := refParseClientResponse(cfg, fresh.sink, true)
	verifAssert(out.valid && out.code == 0, "C15: probe RPC succeeds on a fresh transcoder")
}

// c15History runs one earlier RPC (or seeds the pools) on the used transcoder.
func c15History(used *pipeRun, cfg *pipeCfg, history int) {
	used.sink = newFakeSink()
	used.body = &fakeBody{}
	used.backend.rec = backendRecord{}
	switch history {
	case 0: // an earlier valid RPC with different (larger) contents
		runProbe(used, cfg, []wireMsg{{abstract: []byte("OLDOLD1"), compressed: true}}, []wireMsg{{abstract: []byte("OLDRESP")}}, false)
	case 1: // request cut in the middle of a message
		used.backend.script = &respScript{}
		used.req = buildClientRequest(cfg, nil, used.body)
		used.body.data = append(appendFrame(nil, 1, refToyCompress([]byte("STALE")))[:7], 0x33)[:7]
		used.tr.ServeHTTP(used.sink, used.req)
	case 2: // message over the limit
		used.backend.script = &respScript{}
		used.req = buildClientRequest(cfg, nil, used.body)
		used.body.data = appendFrame(nil, 0, bytes.Repeat([]byte("0123456789"), 7))
		used.tr.ServeHTTP(used.sink, used.req)
	case 3: // corrupt compressed payload
		used.backend.script = &respScript{}
		used.req = buildClientRequest(cfg, nil, used.body)
		used.body.data = appendFrame(nil, 1, []byte{0x01, 0x02, 0x03})
		used.tr.ServeHTTP(used.sink, used.req)
	case 4: // rejected during validation
		used.req = buildClientRequest(cfg, nil, used.body)
		used.req.Header.Set("Grpc-Encoding", "zstd")
		used.tr.ServeHTTP(used.sink, used.req)
	case 5: // handler panics after reading part of the request and writing part of a response
		used.tr.methods[pipePath].handler = http.HandlerFunc(func(w http.ResponseWriter, r *http.Request) {
			buf := make([]byte, 3)
			r.Body.Read(buf)
			w.Header().Set("Content-Type", "application/connect+json")
			w.Write([]byte{0, 0, 0})
			panic("boom")
		})
		used.req = buildClientRequest(cfg, []wireMsg{{abstract: []byte("PANIC"), compressed: true}}, used.body)
		func() {
			defer func() { recover() }()
			used.tr.ServeHTTP(used.sink, used.req)
		}()
		used.tr.methods[pipePath].handler = used.backend
	case 6, 7: // a message that decodes but has no form in the other codec: in the request (6) or the response (7)
		bad := []wireMsg{{abstract: []byte{'B', 0xFF, 'D'}, compressed: true}}
		if history == 6 {
			runProbe(used, cfg, bad, []wireMsg{{abstract: []byte("OLDRESP")}}, false)
		} else {
			runProbe(used, cfg, []wireMsg{{abstract: []byte("OLDREQ"), compressed: true}}, []wireMsg{{abstract: []byte{'B', 0xFF}}}, false)
		}
	default: // pools seeded directly with dirty objects
		dirty := bytes.NewBuffer(make([]byte, 0, 4))
		dirty.WriteString("stale-bytes")
		used.tr.bufferPool.Put(dirty)
		dirty2 := bytes.NewBufferString("xx")
		used.tr.bufferPool.Put(dirty2)
		pool := used.tr.compressors[CompressionGzip]
		dc := &toyDecompressor{}
		dc.Reset(bytes.NewReader([]byte{toyMagic, 1, 2, 3}))
		dc.Read(make([]byte, 1)) // left mid-stream
		pool.decompressors.Put(dc)
		cc := &toyCompressor{}
		cc.Reset(&bytes.Buffer{})
		cc.Write([]byte("half")) // never closed
		pool.compressors.Put(cc)
	}
}

// hC15RestVars: a REST backend route with path variables: the request built for one RPC does not depend on
// the values of an earlier RPC on the same transcoder (route templates are shared state).
func hC15RestVars() {
	tpl := []string{"/v1/{name}/items/{id=**}", "/v3/{name}/x"}[verifChoose("template", 2)]
	rules := []*annotations.HttpRule{{Selector: pipeSvc + "." + pipeMethod, Pattern: &annotations.HttpRule_Get{Get: tpl}}}
	run := func(f *restFixture, name, id string) (string, string, int) {
		f.backend.rec = backendRecord{}
		f.backend.script = &respScript{msgs: []wireMsg{{}}}
		f.sink = newFakeSink()
		msg := &fakeMsg{}
		msg.fvals[0], msg.fset[0] = name, true
		msg.fvals[1], msg.fset[1] = id, true
		req := &http.Request{Method: "POST", URL: &url.URL{Path: pipePath}, Proto: "HTTP/2", ProtoMajor: 2, Header: http.Header{"Content-Type": {"application/grpc+proto"}},
			Body: &fakeBody{data: appendFrame(nil, 0, toyAppendFields(false, nil, msg))}, ContentLength: -1}
		f.tr.ServeHTTP(f.sink, req)
		return f.backend.rec.path, f.backend.rec.rawQuery, f.backend.rec.calls
	}
	name := string(nondetBytes("name", 1))
	id := string(nondetBytes("id", 1))
	verifAssume(refUnreserved(name[0]) && refUnreserved(id[0]))
	fresh := newRestFixture(ProtocolREST, rules)
	used := newRestFixture(ProtocolREST, rules)
	if fresh == nil || used == nil {
		return
	}
	wantPath, wantQuery, wantCalls := run(fresh, name, id)
	run(used, "OLD", "PREVIOUS")
	gotPath, gotQuery, gotCalls := run(used, name, id)
	verifObsStr("fresh-path", wantPath)
	verifObsStr("used-path", gotPath)
	verifReach("rest-probe-after-history")
	verifAssert(wantCalls == 1, "C15: probe reaches the REST backend on a fresh transcoder")
	verifAssert(gotCalls == wantCalls && gotPath == wantPath && gotQuery == wantQuery, "C15: REST request line independent of earlier traffic")
}
