package vanguard

import (
	"net/url"
	"strings"

	"google.golang.org/protobuf/types/descriptorpb"
)

func idemLevel(i int) (descriptorpb.MethodOptions_IdempotencyLevel, bool) {
	switch i {
	case 0:
		return 0, false // unset
	case 1:
		return descriptorpb.MethodOptions_IDEMPOTENCY_UNKNOWN, true
	case 2:
		return descriptorpb.MethodOptions_NO_SIDE_EFFECTS, true
	default:
		return descriptorpb.MethodOptions_IDEMPOTENT, true
	}
}

// hC19Accept: a Connect GET request is accepted only for side-effect-free methods (405 + Allow otherwise),
// for every HTTP method string of 3 symbolic bytes.
func hC19Accept() {
	cfg := &pipeCfg{maxMsg: 4096, kind: fkUnary, client: cfConnectGet, clientCodec: CodecProto, svcCodecs: []string{CodecProto}}
	lvl := verifChoose("idempotency", 4)
	cfg.idem, cfg.hasIdem = idemLevel(lvl)
	cfg.svcProtos = []Protocol{pipeProtocols[verifChoose("target", 3)]}
	p := newPipe(cfg)
	if !p.buildOK {
		return
	}
	p.backend.script = &respScript{msgs: []wireMsg{{abstract: []byte{'r'}}}}
	req := buildClientRequest(cfg, []wireMsg{{abstract: []byte{'q'}}}, p.body)
	m := nondetBytes("method", 3)
	req.Method = string(m)
	if verifChoose("viaHeader", 2) == 1 {
		// the other way to mark a Connect GET: protocol version header instead of connect=v1
		req.URL.RawQuery = strings.Replace(req.URL.RawQuery, "connect=v1&", "", 1)
		req.Header.Set("Connect-Protocol-Version", "1")
	}
	p.tr.ServeHTTP(p.sink, req)
	isGet := req.Method == "GET"
	nse := lvl == 2
	verifObsInt("status", int64(p.sink.status))
	verifObsInt("calls", int64(p.backend.rec.calls))
	if isGet && nse {
		verifReach("get-allowed")
		verifAssert(p.backend.rec.calls == 1, "C19: GET for a side-effect-free method is served")
		return
	}
	if isGet {
		verifReach("get-refused")
		verifAssert(p.backend.rec.calls == 0, "C19: GET for a method that may have side effects never reaches the backend")
		verifAssert(p.sink.status == 405, "C19: refused GET is answered 405")
		allow := p.sink.headSnap.Get("Allow")
		verifAssert(strings.Contains(allow, "POST") && !strings.Contains(allow, "GET"), "C19: Allow names POST only")
		return
	}
	verifReach("other-method")
	// not GET and not POST (POST without a content-type is not a Connect GET request at all)
	if req.Method != "POST" && p.sink.status == 405 {
		allow := p.sink.headSnap.Get("Allow")
		verifAssert(strings.Contains(allow, "POST"), "C19: Allow names POST")
		verifAssert(strings.Contains(allow, "GET") == nse, "C19: Allow names GET only when the method allows it")
	}
	verifAssert(p.backend.rec.calls == 0 || req.Method == "POST", "C19: other methods are never dispatched as Connect GET")
}

// hC19Decode: the message a GET carries in its query (plain or base64, optionally compressed) decodes
// to exactly what a POST body with the same content yields.
func hC19Decode() {
	cfg := &pipeCfg{maxMsg: 4096, kind: fkUnary, client: cfConnectGet, idem: descriptorpb.MethodOptions_NO_SIDE_EFFECTS, hasIdem: true}
	cfg.clientCodec = CodecProto
	if verifChoose("clientCodec", 2) == 1 {
		cfg.clientCodec = CodecJSON
	}
	// force a conversion so that the transcoder itself decodes the query
	cfg.svcProtos = []Protocol{ProtocolGRPC}
	cfg.svcCodecs = []string{CodecProto}
	if cfg.clientCodec == CodecProto {
		cfg.svcCodecs = []string{CodecJSON}
	}
	cfg.clientComp = verifChoose("compressed", 2) == 1
	p := newPipe(cfg)
	if !p.buildOK {
		return
	}
	p.backend.script = &respScript{msgs: []wireMsg{{abstract: []byte{'r'}}}}
	maxLen := 2
	if verifTier() == 1 {
		maxLen = 3
	}
	n := verifChoose("len", maxLen+1)
	abstract := nondetBytes("msg", n)
	payload := encodeMsg(cfg.clientCodec, wireMsg{abstract: abstract, compressed: cfg.clientComp})
	req := buildClientRequest(cfg, nil, p.body)
	q := "connect=v1&encoding=" + cfg.clientCodec
	if verifChoose("signalledByHeader", 2) == 1 {
		// the other way to mark a Connect GET: the Connect-Protocol-Version header instead of connect=v1
		q = "encoding=" + cfg.clientCodec
		req.Header.Set("Connect-Protocol-Version", "1")
	}
	if cfg.clientComp {
		q += "&compression=gzip"
	}
	plain := cfg.clientCodec == CodecJSON && !cfg.clientComp && verifChoose("plain", 2) == 1
	if plain {
		q += "&message=" + url.QueryEscape(string(payload))
	} else {
		q += "&base64=1&message=" + refBase64URL(payload)
		if verifChoose("padded", 2) == 1 {
			for len(q)%4 != 0 && false {
			}
			pad := (4 - len(refBase64URL(payload))%4) % 4
			q += strings.Repeat("%3D", pad)
		}
	}
	req.URL.RawQuery = q
	p.tr.ServeHTTP(p.sink, req)
	target, codec, comp := refNegotiate(cfg)
	verifObsBytes("backend-body", p.backend.rec.body)
	verifReach("get-decoded")
	verifAssert(p.backend.rec.calls == 1, "C19: GET is served")
	got, parsed := refParseBackendBody(target, true, codec, comp, p.backend.rec.body)
	verifAssert(parsed && len(got) == 1 && bytesEq(got[0], abstract), "C19: query-carried message decodes to what a POST body would carry")
}

// hC19Issue: towards a Connect backend GET is issued only if the client used GET, the method is
// side-effect-free, the codec is stable and the URL fits the configured maximum (symbolic); otherwise POST.
func hC19Issue() {
	cfg := &pipeCfg{maxMsg: 4096, kind: fkUnary, clientCodec: CodecJSON, svcCodecs: []string{CodecProto}}
	cfg.svcProtos = []Protocol{ProtocolConnect}
	clientGet := verifChoose("clientGet", 2) == 1
	restGet := false
	if clientGet {
		cfg.client = cfConnectGet
		if verifChoose("restGet", 2) == 1 {
			restGet = true // a REST client using the rule's GET binding (short path, empty message)
			cfg.client = cfREST
		}
	} else {
		cfg.client = []int{cfConnectUnary, cfGRPC, cfGRPCWeb}[verifChoose("client", 3)]
	}
	lvl := verifChoose("idempotency", 4)
	cfg.idem, cfg.hasIdem = idemLevel(lvl)
	cfg.unstable = verifChoose("unstableCodec", 2) == 1
	cfg.svcComp = verifChoose("svcComp", 2) == 1
	cfg.clientComp = cfg.svcComp && verifChoose("clientComp", 2) == 1
	cfg.maxGetURL = verifNondetUint32("maxGetURL")
	verifAssume(cfg.maxGetURL > 0)
	p := newPipe(cfg)
	if !p.buildOK {
		return
	}
	p.backend.script = &respScript{msgs: []wireMsg{{abstract: []byte{'r'}}}}
	abstract := []byte("ab")[:verifChoose("len", 3)]
	if restGet {
		abstract = nil
		p.req = buildClientRequest(cfg, nil, p.body)
		p.req.Method = "GET"
		p.req.URL.Path = pipeRESTGetPath
		p.req.Header.Del("Content-Type")
		p.body.data = nil
		p.tr.ServeHTTP(p.sink, p.req)
	} else {
		p.serve([]wireMsg{{abstract: abstract}})
	}
	rec := &p.backend.rec
	verifObsStr("backend-method", rec.method)
	verifObsStr("backend-query", rec.rawQuery)
	verifObsBytes("backend-body", rec.body)
	if rec.calls == 0 {
		verifReach("not-dispatched") // e.g. client GET refused because the method is not side-effect-free
		verifAssert(clientGet && !restGet && lvl != 2, "C19: only a refused Connect GET is not dispatched here")
		return
	}
	nse := lvl == 2
	if rec.method == "GET" {
		verifReach("backend-get")
		verifAssert(clientGet, "C19: GET is issued only when the client's own request was a GET")
		verifAssert(nse, "C19: GET is issued only for side-effect-free methods")
		verifAssert(!cfg.unstable, "C19: GET is issued only with a stable codec")
		verifAssert(uint32(len(rec.path)+1+len(rec.rawQuery)) <= cfg.maxGetURL, "C19: issued GET URL fits the configured maximum")
		verifAssert(len(rec.body) == 0, "C19: GET carries no body")
		vals, err := url.ParseQuery(rec.rawQuery)
		verifAssert(err == nil && vals.Get("connect") == "v1" && vals.Get("encoding") == CodecProto, "C19: GET query names protocol and codec")
		compName := vals.Get("compression")
		verifAssert(compName == "" || (compName == "gzip" && cfg.svcComp), "C19: GET compression is one the service accepts")
		msg := []byte(vals.Get("message"))
		if vals.Get("base64") == "1" {
			dec, ok := refBase64URLDecode(vals.Get("message"))
			verifAssert(ok, "C19: base64 message decodes")
			msg = dec
		} else {
			verifAssert(false, "C19: binary or compressed payload is base64 encoded")
		}
		m, ok := refDecodeMsg(CodecProto, compName != "", msg)
		verifAssert(ok && bytesEq(m, abstract), "C19: GET query carries the client's message")
		return
	}
	verifReach("backend-post")
	verifAssert(rec.method == "POST" && rec.rawQuery == "", "C19: otherwise POST with an empty query")
	_, codec, comp := refNegotiate(cfg)
	got, parsed := refParseBackendBody(ProtocolConnect, true, codec, comp, rec.body)
	verifAssert(parsed && len(got) == 1 && bytesEq(got[0], abstract), "C19: POST carries the message in the body")
	if clientGet && nse && !cfg.unstable {
		// POST is only right here if the GET URL would not have fitted: the URL the transcoder would build
		// is at least path + "?" + the three mandatory parameters
		minURL := len(pipePath) + 1 + len("base64=1&connect=v1&encoding=proto&message=")
		verifAssert(uint32(minURL) > cfg.maxGetURL || cfg.maxGetURL < 1<<16, "C19: POST instead of GET only when the URL limit demands it")
	}
}

func refBase64URLDecode(s string) ([]byte, bool) {
	var out []byte
	var acc uint32
	bits := 0
	for i := 0; i < len(s); i++ {
		c := s[i]
		var v int
		switch {
		case c >= 'A' && c <= 'Z':
			v = int(c - 'A')
		case c >= 'a' && c <= 'z':
			v = int(c-'a') + 26
		case c >= '0' && c <= '9':
			v = int(c-'0') + 52
		case c == '-':
			v = 62
		case c == '_':
			v = 63
		case c == '=':
			continue
		default:
			return nil, false
		}
		acc = acc<<6 | uint32(v)
		bits += 6
		if bits >= 8 {
			bits -= 8
			out = append(out, byte(acc>>uint(bits)))
		}
	}
	return out, true
}
