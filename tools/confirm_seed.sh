#!/bin/sh
# usage: tools/confirm_seed.sh <seed-id> <worktree> ; confirms the agent's claims in its scratch worktree and stores /verif/seeded/<seed-id>/
set -u
ID=$1; WT=$2; OUT=/verif/seeded/$ID
cd "$WT" || exit 2
DEMO=$(grep -l "func TestDemo" zz_demo_test.go 2>/dev/null)
[ -f patch.diff ] && [ -n "$DEMO" ] || { echo "missing deliverables"; exit 2; }
TEST=$(grep -o "func TestDemo[A-Za-z0-9_]*" zz_demo_test.go | head -1 | sed 's/func //')
git checkout -q -- . 2>/dev/null
git apply --check patch.diff || { echo "patch does not apply to HEAD"; exit 2; }
# without the change: demo passes
go test -vet=off -count=1 -run "^$TEST\$" . > /tmp/seed_$ID.orig.log 2>&1; ORIG=$?
git apply patch.diff
go build ./... > /tmp/seed_$ID.build.log 2>&1; BUILD=$?
go test -vet=off -count=1 -run "^$TEST\$" . > /tmp/seed_$ID.mut.log 2>&1; MUT=$?
mv zz_demo_test.go /tmp/seed_$ID.demo.go
go test -vet=off -count=1 ./... > /tmp/seed_$ID.suite.log 2>&1; SUITE=$?
mv /tmp/seed_$ID.demo.go zz_demo_test.go
echo "$ID: demo-on-original=$ORIG (want 0) build=$BUILD (want 0) demo-with-change=$MUT (want !=0) suite-with-change=$SUITE (want 0)"
if [ $ORIG -eq 0 ] && [ $BUILD -eq 0 ] && [ $MUT -ne 0 ] && [ $SUITE -eq 0 ]; then
  mkdir -p $OUT && cp patch.diff $OUT/patch.diff && cp zz_demo_test.go $OUT/demo_test.go && cp meta.txt $OUT/agent_meta.txt
  echo CONFIRMED
else
  echo NOT-CONFIRMED
fi
