#!/bin/sh
# usage: tools/run_seed.sh <seed-id> <property> [tier] ; applies the seed to /repo, runs the property's check, restores /repo
ID=$1; PROP=$2; TIER=${3:-quick}
cd /repo && git apply /verif/seeded/$ID/patch.diff || { echo "cannot apply"; exit 2; }
cd /verif && timeout 1800 ./check $PROP $TIER > /tmp/seedrun_${ID}_${PROP}.log 2>&1; RC=$?
cd /repo && git checkout -- . 
echo "seed $ID vs $PROP $TIER: exit=$RC  $(grep -c '^VIOLATION' /tmp/seedrun_${ID}_${PROP}.log) violation lines; $(grep -m1 'violated:' /tmp/seedrun_${ID}_${PROP}.log | cut -c1-220)"
grep -m3 "INCONCLUSIVE" /tmp/seedrun_${ID}_${PROP}.log | cut -c1-300
