#!/bin/sh
# usage: tools/seeds_on_copy.sh <seed-id>... ; runs each seed's property check (quick) against a scratch copy of /repo
# (a git worktree at /tmp/seedrepo) using a snapshot of /verif (/tmp/seedverif), so /repo and /verif stay free.
# Only for experiments: registered checks and evidence always come from /verif against /repo itself.
export GOFLAGS=-mod=mod GOPROXY=off GOSUMDB=off GOTOOLCHAIN=local
export PATH=/root/go/pkg/mod/golang.org/toolchain@v0.0.1-go1.25.0.linux-amd64/bin:$PATH
S=/tmp/seedverif; R=/tmp/seedrepo
rm -rf $S; mkdir -p $S; rsync -a --exclude .git --exclude work --exclude replays /verif/ $S/
git -C /repo worktree remove --force $R 2>/dev/null; git -C /repo worktree add -q --detach $R HEAD
for ID in "$@"; do
  PROP=$(python3 -c "import json;print(json.load(open('/verif/seeded/$ID/meta.json'))['property'])" 2>/dev/null || echo ${ID%-*})
  [ -n "$SEED_PROP" ] && PROP=$SEED_PROP
  ( cd $R && git apply /verif/seeded/$ID/patch.diff ) || { echo "$ID: cannot apply"; continue; }
  ( cd $S && timeout 1800 bin/vsym check -root $S -repo $R -property $PROP -tier ${SEED_TIER:-quick} -j ${SEED_J:-16} ) > /tmp/seedrun_${ID}_${PROP}.log 2>&1; RC=$?
  ( cd $R && git checkout -q -- . )
  echo "seed $ID vs $PROP: exit=$RC $(grep -c '^VIOLATION' /tmp/seedrun_${ID}_${PROP}.log) violation lines; $(grep -m1 'violated:' /tmp/seedrun_${ID}_${PROP}.log | cut -c1-200)"
  grep -m2 "INCONCLUSIVE" /tmp/seedrun_${ID}_${PROP}.log | cut -c1-250
done
git -C /repo worktree remove --force $R; rm -rf $S
