#!/bin/sh
# usage: tools/try_seed.sh <seed-id> <harness[,harness...]> [extra vsym run flags] ; developer loop: runs harnesses
# (engine only, no native replay) against a scratch worktree of /repo with the seed applied
export GOFLAGS=-mod=mod GOPROXY=off GOSUMDB=off GOTOOLCHAIN=local
export PATH=/root/go/pkg/mod/golang.org/toolchain@v0.0.1-go1.25.0.linux-amd64/bin:$PATH
ID=$1; H=$2; shift 2
R=/tmp/tryrepo_$ID
git -C /repo worktree remove --force $R 2>/dev/null
git -C /repo worktree add -q --detach $R HEAD
( cd $R && git apply /verif/seeded/$ID/patch.diff ) || { echo "$ID: cannot apply"; git -C /repo worktree remove --force $R; exit 2; }
/verif/bin/vsym run -repo $R -harness /verif/harness -h $H -first "$@" 2>&1 | grep -v "^   (" | grep -E "^==|VIOLATION|reach|error|panic|FAILED|unsupported|budget" | cut -c1-330
git -C /repo worktree remove --force $R
