#!/bin/sh
# Runs every kept seed against its property's quick check (applies to /repo, restores afterwards).
cd /verif
for d in seeded/*/; do
  id=$(basename $d); prop=$(python3 -c "import json;print(json.load(open('$d/meta.json'))['property'])")
  tools/run_seed.sh $id $prop | head -1
done
git -C /repo status --short | head -3
