#!/bin/sh
# usage: tools/process_seed.sh <property> <letter> ; confirms /tmp/wt/<property> as seed <property>-<letter>, stores it, removes the worktree
P=$1; L=$2
export GOFLAGS=-mod=mod GOPROXY=off GOSUMDB=off GOTOOLCHAIN=local PATH=/root/go/pkg/mod/golang.org/toolchain@v0.0.1-go1.25.0.linux-amd64/bin:$PATH
cd /verif
tools/confirm_seed.sh $P-$L /tmp/wt/$P | tail -2
if [ -f seeded/$P-$L/patch.diff ]; then
  git -C /repo worktree remove --force /tmp/wt/$P && echo "worktree removed"
fi
