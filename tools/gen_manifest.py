#!/usr/bin/env python3
"""Regenerates /verif/MANIFEST.json from checks.json + the per-property notes in tools/claims.json."""
import json, os
root = os.path.dirname(os.path.dirname(os.path.abspath(__file__)))
checks = json.load(open(os.path.join(root, 'checks.json')))
claims = json.load(open(os.path.join(root, 'tools', 'claims.json')))
props = [json.loads(l)['id'] for l in open(os.path.join(root, 'properties.jsonl'))]
m = {
 "version": 1,
 "setup_cmd": "sh setup.sh",
 "hooks": {"guard": "verif", "enable": "none needed: harnesses (package vanguard) are injected by go/packages Overlay for the symbolic run and by `go test -overlay` for native replay; nothing is written into /repo",
           "baseline_off_cmd": "cd /repo && go test -vet=off -count=1 ./...", "source_commits": [], "add_only": True},
 "engines": [{"name": "vsym", "path": "engine/", "serves_properties": [p for p in props if p in claims and p in checks],
              "kind_free_text": "go/ssa symbolic executor written for this task: concrete shape / symbolic leaves, path exploration by decision-trace re-execution, SMT-LIB2 to z3 5.1, cvc5 1.0 and z3 4.8 (bit-vector and integer encodings), native replay of every counterexample"}],
 "checks": [], "not_applicable": [],
 "notes": "Every check regenerates its encoding from /repo's working tree (go/packages + go/ssa on each run). Exit 0 = all obligations unsat on all explored paths, vacuity witnesses reached, sampled paths agree with the natively compiled code; exit 1 = counterexample confirmed by native replay (VIOLATION line); exit 2 = inconclusive (unsupported construct, solver unknown, unconfirmed counterexample, harness no longer compiles)."}
for p in props:
    c = claims.get(p)
    if c and p in checks and not c.get('not_applicable'):
        m["checks"].append({
            "property_id": p,
            "quick_cmd": f"./check {p} quick",
            "thorough_cmd": f"./check {p} thorough",
            "evidence_file": f"evidence/{p}.json",
            "replay_cmd_template": "./check --replay {path}",
            "engine": "vsym",
            "level_claimed": {"category": c.get("category", "model_checking"), "text": c["level"], "design_ref": c.get("design_ref", "DESIGN.md §5 " + p)},
            "level_note": c["note"],
            "technique": c.get("technique", "bounded symbolic execution of the real code (go/ssa -> SMT-LIB2), solver-decided assertions, native replay of models"),
        })
    else:
        reason = (c or {}).get('not_applicable') or "check not yet built in this session"
        m["not_applicable"].append({"property_id": p, "reason": reason})
json.dump(m, open(os.path.join(root, 'MANIFEST.json'), 'w'), indent=1)
print("claimed:", [c["property_id"] for c in m["checks"]])
