#!/bin/sh
# Runs the real-goroutine demonstration of the recorded C14 finding against /repo (overlay, nothing written there).
# Expected on the pinned tree: FAIL (data after / inside the end of stream). That failure is the finding.
export GOFLAGS=-mod=mod GOPROXY=off GOSUMDB=off GOTOOLCHAIN=local
export PATH=/root/go/pkg/mod/golang.org/toolchain@v0.0.1-go1.25.0.linux-amd64/bin:$PATH
OV=$(mktemp); echo '{"Replace":{"/repo/zz_finding_c14_test.go":"/verif/findings/c14_duplex_demo_test.go"}}' > $OV
cd /repo && go test -vet=off -count=1 -run TestFindingC14Duplex -overlay $OV . ; RC=$?
rm -f $OV; exit $RC
