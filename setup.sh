#!/bin/sh
# Build the symbolic executor from files on disk only (x/tools v0.50.0 from the module cache, go1.26.8).
set -e
cd "$(dirname "$0")/engine"
export GOFLAGS=-mod=mod GOPROXY=off GOSUMDB=off GOTOOLCHAIN=local
mkdir -p ../bin
go1.26.8 build -o ../bin/vsym .
echo "built $(cd .. && pwd)/bin/vsym"
