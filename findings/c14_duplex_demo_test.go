package vanguard

// Demonstration of the recorded (not repaired) C14 finding with real goroutines, against the real code.
// Run: cd /repo && go test -vet=off -count=1 -run TestFindingC14Duplex -overlay <(echo '{"Replace":{"/repo/zz_finding_c14_test.go":"/verif/findings/c14_duplex_demo_test.go"}}') .
// (tools/show_finding_c14.sh does that.) The test FAILS on the pinned tree: that failure is the finding.

import (
	"bytes"
	"io"
	"net/http"
	"net/http/httptest"
	"testing"
	"time"

	"connectrpc.com/vanguard/internal/gen/vanguard/test/v1/testv1connect"
)

// slowWriter blocks the first body Write until released: a client connection under flow control.
type slowWriter struct {
	*httptest.ResponseRecorder
	entered chan struct{}
	release chan struct{}
	n       int
}

func (s *slowWriter) Write(p []byte) (int, error) {
	s.n++
	if s.n == 1 {
		close(s.entered)
		<-s.release
	}
	return s.ResponseRecorder.Write(p)
}
func (s *slowWriter) Flush() {}

func TestFindingC14Duplex(t *testing.T) {
	readerDone := make(chan struct{})
	backend := http.HandlerFunc(func(w http.ResponseWriter, r *http.Request) {
		go func() { // the handler's reader goroutine
			defer close(readerDone)
			_, _ = io.Copy(io.Discard, r.Body)
		}()
		w.Header().Set("Content-Type", "application/grpc+proto")
		w.WriteHeader(200)
		msg := []byte{0x0a, 0x01, 'x'}                                               // SubscribeResponse{filename_changed:"x"}
		_, _ = w.Write(append([]byte{0, 0, 0, 0, byte(len(msg))}, msg...)) // one gRPC frame
		<-readerDone
		w.Header().Set(http.TrailerPrefix+"Grpc-Status", "0")
	})
	svc := NewService(testv1connect.ContentServiceName, backend, WithTargetProtocols(ProtocolGRPC), WithTargetCodecs(CodecProto), WithNoTargetCompression())
	tr, err := NewTranscoder([]*Service{svc})
	if err != nil {
		t.Fatal(err)
	}
	pr, pw := io.Pipe()
	req := httptest.NewRequest("POST", "/vanguard.test.v1.ContentService/Subscribe", pr)
	req.ProtoMajor, req.ProtoMinor, req.Proto = 2, 0, "HTTP/2.0"
	req.Header.Set("Content-Type", "application/connect+proto")
	sw := &slowWriter{ResponseRecorder: httptest.NewRecorder(), entered: make(chan struct{}), release: make(chan struct{})}
	done := make(chan struct{})
	go func() { defer close(done); tr.ServeHTTP(sw, req) }()
	select {
	case <-sw.entered: // the writer goroutine is blocked in the first Write of the response message
	case <-time.After(5 * time.Second):
		t.Fatal("writer never reached the client connection")
	}
	_, _ = pw.Write([]byte{0x7f, 0, 0, 0, 0}) // the client sends an envelope with invalid flags
	select {
	case <-readerDone: // the reader goroutine has seen (and the transcoder has reported) the error
	case <-time.After(5 * time.Second):
		t.Fatal("reader never finished")
	}
	close(sw.release)
	_ = pw.Close()
	<-done
	// parse what the Connect streaming client received
	body := sw.Body.Bytes()
	sawEnd := false
	for len(body) > 0 {
		if len(body) < 5 {
			t.Fatalf("response stream ends inside an envelope: % x", body)
		}
		n := int(body[1])<<24 | int(body[2])<<16 | int(body[3])<<8 | int(body[4])
		if len(body)-5 < n {
			t.Fatalf("response stream ends inside a message (announced %d, have %d): %q", n, len(body)-5, sw.Body.Bytes())
		}
		if sawEnd {
			t.Fatalf("data after the end-of-stream frame: %q", sw.Body.Bytes())
		}
		if body[0]&2 != 0 {
			sawEnd = true
			if !bytes.HasPrefix(body[5:5+n], []byte("{")) {
				t.Fatalf("end-of-stream frame is not a JSON document: %q", body[5:5+n])
			}
		}
		body = body[5+n:]
	}
	if !sawEnd {
		t.Fatalf("no end-of-stream frame: %q", sw.Body.Bytes())
	}
}
